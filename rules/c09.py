"""C09 - module graphs load once, dependencies first: structural clauses of the loader.

The property is about the behaviour of a fixed-point loop over run-time maps for all graphs x supply
schedules; that behaviour is not decided here.  Six parts of it are visible in the shape of the loader and
each is a necessary condition (breaking it breaks the property for some graph / schedule):

  R1 run-once (T-DOM): the function that runs a supplied module's body (it takes the program out of
     `pending_module_sources` and registers the namespace object in `loaded_modules`) is only reached for a
     path that was tested *not* to be in `loaded_modules` - a duplicate or late supply of an evaluated module
     must not run its body again.
  R2 dependencies-first (T-DOM): the same sites are reached only on the `is_empty()` edge of a list produced
     by a filter that consults `loaded_modules` and NOT `pending_module_sources` ("supplied" is not
     "evaluated"), computed from the imports of that very module; the binding installer of the main program
     is reached only behind the same kind of gate.
  R3 canonical-keys (T-ORIGIN / who-may-construct): every `ImportRequest.resolved_path` is the result of
     `ModulePath::resolve`; inside the interpreter no `ModulePath` is made from raw text (`ModulePath::new`,
     `From`), so every key of the two module tables went through the resolver or came from the host.
  R4 requests-once: every list handed out in `StepResult::NeedImports` went through a de-duplication keyed by
     the resolved path (a filter on `HashSet::insert`, or pushes guarded by a membership test).
  R5 live-bindings: named/default import specifiers are bound through an `ImportBinding` (read at use, not a
     value copied at import time); direct exports that have a binding in the module scope are published as
     `ModuleExportGetter`s, the stored value only on the no-binding edge; re-exports as `ModuleReExportGetter`.
  R6 loader-progress (T-LOOP): every cycle of the ready-module loop runs at least one module body, and the
     runner removes its module from `pending_module_sources` before anything else, so the loop terminates.

Not decided: that the result is the same for every supply order (values), cycles, the host's use of the API.
"""
from common import Check
import facts as F
import mir as M
from c18 import derives_from, true_edge, def_call

INTERP = "interpreter::Interpreter"
LM = "loaded_modules"
PM = "pending_module_sources"


def field_of(f, local, depth=0):
    """name of the Interpreter field a reference local points at (through reborrows / deref calls), or None"""
    if depth > 8:
        return None
    for bi, si, rv in f.defs().get(local, []):
        if si == "T":
            name = rv[1].get("u") or ""
            if name.endswith(("Deref::deref", "DerefMut::deref_mut")) and rv[2] and rv[2][0][0] in ("c", "m"):
                r = field_of(f, rv[2][0][1][0], depth + 1)
                if r:
                    return r
            continue
        if rv[0] == "ref":
            for (adt, var, fld) in F.place_fields(rv[2]):
                if adt == INTERP or adt == "c09::Interpreter":
                    return fld
            if not rv[2][1] or rv[2][1] == ["*"]:
                r = field_of(f, rv[2][0], depth + 1)
                if r:
                    return r
        elif rv[0] == "use" and rv[1][0] in ("c", "m"):
            r = field_of(f, rv[1][1][0], depth + 1)
            if r:
                return r
    return None


def table_calls(f, field, methods):
    """calls `HashMap::<m>(&self.<field>, ..)` in f: [(block, term, method)]"""
    out = []
    for bi, t in f.calls():
        d = t[1].get("d") or ""
        if "HashMap::<" not in d:
            continue
        m = d.split("::")[-1]
        if m not in methods or not t[2] or t[2][0][0] not in ("c", "m"):
            continue
        if field_of(f, t[2][0][1][0]) == field:
            out.append((bi, t, m))
    return out


def ancestors(f, local, acc=None, depth=0):
    """locals `local` is computed from (transitively, through statements and call arguments)"""
    acc = acc if acc is not None else set()
    if local in acc or depth > 80:
        return acc
    acc.add(local)
    for bi, si, rv in f.defs().get(local, []):
        if si == "T":
            for a in rv[2]:
                if a[0] in ("c", "m"):
                    ancestors(f, a[1][0], acc, depth + 1)
        else:
            for pl in F.rvalue_places(rv):
                ancestors(f, pl[0], acc, depth + 1)
    return acc


def edge_dominates(f, edge_block, site_block):
    """the switch edge into `edge_block` dominates `site_block`: the block dominates the site and is entered by that edge only
    (`a && b` makes the else block a join of two edges: neither edge dominates what follows)"""
    if edge_block is None or not f.dominates(edge_block, site_block):
        return False
    outside = [p for p in f.preds()[edge_block] if not f.dominates(edge_block, p)]
    return len(outside) <= 1


def reads_field(fx, fn, field, depth=0, seen=None):
    """the function (with its closures) reads Interpreter.<field>, itself or through the small predicates / filters it calls
    (`is_internal_or_loaded(req)`): local callees returning bool or a request list, three levels deep"""
    seen = seen if seen is not None else set()
    if fn.path in seen:
        return False
    seen.add(fn.path)
    for g in fx.body_group(fn):
        for bi, kind, pl, sp in M.all_places(g):
            for (adt, var, fld) in F.place_fields(pl):
                if adt in (INTERP, "c09::Interpreter") and fld == field:
                    return True
        if depth < 3:
            for bi, t in g.calls():
                c = fx.fns.get(t[1].get("d")) if t[1].get("local") else None
                if c is not None and not c.closure and (fx.tys(c.locals[0]) == "bool" or "ImportRequest" in fx.tys(c.locals[0])):
                    if reads_field(fx, c, field, depth + 1, seen):
                        return True
    return False


def returns_ty(fx, f):
    return _norm(fx.tys(f.locals[0]))


def _norm(ts):
    return ts.replace("c09::", "")


def run(tier, fx=None, ck=None, control=False):
    own = ck is None
    if own:
        ck = Check("C09", tier, "dominance rules on the CFG of the loader (run-once and dependencies-first gates), value-origin rule for request "
                                "paths and module-table keys, who-may-construct ModulePath, match-arm reachability for live bindings, loop-progress "
                                "rule for the ready-module loop",
                   ["that the completion value, exports and per-module load log are the same for every supply order (values of a run)",
                    "cyclic graphs (outside the property's quantifier)",
                    "`export * from` (no production in the compiler: nothing to analyse)",
                    "how the host names the modules it supplies (provide_module takes the key from the host)"])
        fx = F.load("A")
        ck.configs.append("A: cargo +nightly check --lib --features c-api")
    pre = "" if not control else "ctl:"
    scope = {p: f for p, f in fx.fns.items() if (control and p.startswith("c09::")) or (not control and p.startswith("interpreter::"))}
    tops = {p: f for p, f in scope.items() if not f.closure}

    # ------------------------------------------------------------ subjects
    runners = []      # functions that take a program out of PM and register in LM (themselves or through a helper they call)
    inserters = {p for p, f in tops.items() if table_calls(f, LM, {"insert"})}
    for p, f in tops.items():
        if table_calls(f, PM, {"remove"}) and (p in inserters or any(t[1].get("d") in inserters for bi, t in f.calls())):
            runners.append(f)
    if not ck.anchor(len(runners) >= 1, pre + "module runner (removes from pending_module_sources, inserts into loaded_modules)"):
        return ck.finish() if own else None
    req_filters = {}  # path -> reads PM?   functions Vec<ImportRequest> -> Vec<ImportRequest> that consult LM
    for p, f in tops.items():
        if "Vec<ImportRequest>" not in returns_ty(fx, f) or returns_ty(fx, f).startswith("std::result"):
            continue
        if not any("Vec<ImportRequest>" in _norm(fx.tys(f.locals[i])) for i in range(1, f.argc + 1)):
            continue
        if reads_field(fx, f, LM):
            req_filters[p] = reads_field(fx, f, PM)
    loaded_only = {p for p, pm in req_filters.items() if not pm}
    ck.anchor(bool(loaded_only), pre + "request filter that consults loaded_modules only")
    collectors = {f.parent if f.closure else p for p, f in scope.items()
                  for bl in f.blocks for s in bl["s"]
                  if s[0] == "a" and s[2][0] == "agg" and s[2][1].get("k") == "adt" and s[2][1].get("p", "").endswith("ImportRequest")}
    ck.anchor(bool(collectors), pre + "a function that builds ImportRequest records")
    dedupers = set()
    for p, f in tops.items():
        if p in req_filters or "Vec<ImportRequest>" not in returns_ty(fx, f):
            continue
        for g in fx.body_group(f):
            for bi, t in g.calls():
                if (t[1].get("d") or "").split("::")[-1] == "insert" and "HashSet" in (t[1].get("d") or "") and len(t[2]) > 1 and t[2][1][0] in ("c", "m"):
                    # the set is keyed by the resolved path of a request (a `seen` set over something else - the modules a walk has visited - is no de-duplication
                    # of the request list)
                    keyed = False
                    for l in ancestors(g, t[2][1][1][0]):
                        for (db, si, rv) in g.defs().get(l, []):
                            if si != "T":
                                for pl in F.rvalue_places(rv):
                                    if any(x[2] == "resolved_path" for x in F.place_fields(pl)):
                                        keyed = True
                    if keyed:
                        dedupers.add(p)

    def gate_sites(h, site_block, subject_anc):
        """(run_once_ok, deps_ok, why) for a site in function h whose module path has ancestors subject_anc"""
        once = False
        for bi, t, m in table_calls(h, LM, {"contains_key"}):
            k = t[2][1]
            if k[0] not in ("c", "m"):
                continue
            if subject_anc is not None and not (ancestors(h, k[1][0]) & subject_anc):
                continue
            te = true_edge(h, bi)
            if te and edge_dominates(h, te[1], site_block):
                once = True
        # the test as a filter in front of the loop: `for path in keys.iter().filter(|p| !self.loaded_modules.contains_key(*p)) { .. }`
        if not once:
            for bi, t in h.calls():
                if not (t[1].get("u") or "").endswith("Iterator::filter") or len(t[2]) < 2 or t[2][1][0] not in ("c", "m"):
                    continue
                cd = h.defs().get(t[2][1][1][0], [])
                if len(cd) != 1 or cd[0][1] == "T" or cd[0][2][0] != "agg" or not isinstance(cd[0][2][1], dict) or cd[0][2][1].get("k") != "closure":
                    continue
                body = fx.fns.get(cd[0][2][1].get("p"))
                # the closure tests the table directly, or through a reference to the table that it captured (`&self.loaded_modules` as a capture)
                captured = any(o[0] in ("c", "m") and field_of(h, o[1][0]) == LM for o in cd[0][2][2])
                if body is None or not (table_calls(body, LM, {"contains_key"})
                                        or (captured and any((t2[1].get("d") or "").endswith("::contains_key") for _, t2 in body.calls()))):
                    continue
                if not any(s_[0] == "a" and s_[2][0] == "un" and s_[2][1] == "Not" for bl_ in body.blocks for s_ in bl_["s"]):
                    continue
                for nb, nt in h.calls():
                    if (nt[1].get("u") or "").endswith("Iterator::next") and nt[2] and nt[2][0][0] in ("c", "m") and t[3][0] in ancestors(h, nt[2][0][1][0]) \
                            and h.dominates(nb, site_block):
                        once = True
        deps = False
        why = "no `is_empty()` gate on a list of still-missing imports dominates the site"
        for bi, t in h.calls():
            if not (t[1].get("d") or "").endswith("Vec::<T, A>::is_empty") or not t[2] or t[2][0][0] not in ("c", "m"):
                continue
            te = true_edge(h, bi)
            if not te or not edge_dominates(h, te[0], site_block):
                continue
            anc = ancestors(h, t[2][0][1][0])
            feeders = set()
            for l in anc:
                for dbi, si, rv in h.defs().get(l, []):
                    if si == "T" and rv[1].get("local"):
                        feeders.add(rv[1].get("d"))
            if not (feeders & set(req_filters)):
                continue
            if feeders & (set(req_filters) - loaded_only):
                why = "the gating list comes from `%s`, which counts modules in `pending_module_sources` (supplied, not yet run) as available" \
                      % sorted(feeders & (set(req_filters) - loaded_only))[0]
                continue
            if not (feeders & collectors) and not any(c in feeders for c in wrappers_of_collectors):
                why = "the gating list is not computed from this module's import requests"
                continue
            if subject_anc is not None and not (anc & subject_anc):
                why = "the gating list is computed from another module's imports"
                continue
            deps = True
        return once, deps, why

    # functions that only forward to a collector count as collectors (collect_import_requests -> .._internal)
    wrappers_of_collectors = set()
    for p, f in tops.items():
        if p not in collectors and any(t[1].get("d") in collectors for bi, t in f.calls()) and "Vec<ImportRequest>" in returns_ty(fx, f) \
                and not returns_ty(fx, f).startswith("std::result") and p not in req_filters and p not in dedupers:
            wrappers_of_collectors.add(p)

    # ------------------------------------------------------------ R1 / R2 at the runner's call sites
    ck.rule("R1.run-once", "a module body runner is reached only for a path tested not to be in loaded_modules", floor=1)
    ck.rule("R2.deps-first", "module bodies and the main program's import bindings run only behind an is_empty() gate on the imports "
                             "that are not yet in loaded_modules (pending sources do not count)", floor=2)
    list_builders = set()
    for r in runners:
        self_gated = False
        # the runner may test for itself
        for bi, t, m in table_calls(r, LM, {"contains_key"}):
            te = true_edge(r, bi)
            rem = table_calls(r, PM, {"remove"})
            if te and rem and all(edge_dominates(r, te[1], rb) for rb, _, _ in rem):
                self_gated = True
        for p, h in sorted(scope.items()):
            for bi, t in h.calls():
                if t[1].get("d") != r.path:
                    continue
                list_builders.add(h.parent if h.closure else h.path)
                arg = t[2][1] if len(t[2]) > 1 else None
                sites = []   # (block, subject ancestors)
                if arg is not None and arg[0] in ("c", "m"):
                    anc = ancestors(h, arg[1][0])
                    # through a local container: judge every push into it
                    conts = [l for l in anc if "Vec<ModulePath>" in _norm(fx.tys(h.locals[l])) and not fx.tys(h.locals[l]).startswith("&")]
                    pushes = []
                    for pb, pt in h.calls():
                        if (pt[1].get("d") or "").endswith(("Vec::<T, A>::push", "Vec::<T, A>::insert")) and pt[2] and pt[2][0][0] in ("c", "m") \
                                and ancestors(h, pt[2][0][1][0]) & set(conts) and len(pt[2]) > 1 and pt[2][-1][0] in ("c", "m"):
                            pushes.append((pb, ancestors(h, pt[2][-1][1][0]) - {1}))
                    sites = pushes if conts and pushes else [(bi, anc - {1})]
                    # the tests may sit where the module is taken out of the container again (`for path in order { if loaded.contains(path) { continue } ..`):
                    # a call site that is gated itself needs no gate at the pushes
                    d_once, d_deps, _ = gate_sites(h, bi, anc - {1})
                    if d_once and d_deps:
                        sites = [(bi, anc - {1})]
                for sb, sanc in sites:
                    once, deps, why = gate_sites(h, sb, sanc)
                    where = F.short_span(h.blocks[sb]["t"][6])
                    ck.instance("R1.run-once", "%s -> %s" % (h.path, r.path.split("::")[-1]), where, ok=once or self_gated)
                    if not (once or self_gated):
                        ck.finding("R1.run-once", "R1.run-once/%s" % h.path, where,
                                   "`%s` schedules `%s` for a module path without a dominating test that the path is not already in "
                                   "`loaded_modules`: a module supplied again after it was evaluated runs its body a second time"
                                   % (h.path, r.path.split("::")[-1]))
                    ck.instance("R2.deps-first", "%s -> %s" % (h.path, r.path.split("::")[-1]), where, ok=deps)
                    if not deps:
                        ck.finding("R2.deps-first", "R2.deps-first/%s" % h.path, where,
                                   "`%s` schedules `%s` for a module, but %s: a module can run before a module it imports"
                                   % (h.path, r.path.split("::")[-1], why))
    # the binding installer of the main program
    installers = set()
    for p, f in tops.items():
        for sw in M.enum_switches(fx, f):
            if sw[1].endswith("ImportSpecifier"):
                installers.add(p)
    ck.anchor(bool(installers), pre + "import-binding installer (match on ast::ImportSpecifier)")
    runner_paths = {r.path for r in runners}
    for p, h in sorted(scope.items()):
        for bi, t in h.calls():
            if t[1].get("d") not in installers:
                continue
            top = h.parent if h.closure else h.path
            if top in runner_paths:
                continue     # gated at the runner's call sites
            if top in source_module_builders(fx, tops):
                continue     # internal source modules import internal modules only (created on demand)
            where = F.short_span(t[6])

            def gated(hf, blk, depth=0):
                """the site is behind a gate here, or the enclosing helper is only called behind one"""
                once_, deps_, why_ = gate_sites(hf, blk, None)
                if deps_:
                    return True, why_, hf.path
                if depth >= 3:
                    return False, why_, hf.path
                topf = hf.parent if hf.closure else hf.path
                callers = [(g, cb) for g in scope.values() for cb, ct in g.calls() if ct[1].get("d") == topf]
                if not callers or hf.vis == "Public":
                    return False, why_, hf.path
                for g, cb in callers:
                    okc, whyc, wherec = gated(g, cb, depth + 1)
                    if not okc:
                        return False, whyc, wherec
                return True, "", hf.path
            deps, why, at = gated(h, bi)
            ck.instance("R2.deps-first", "%s installs import bindings" % top, where, ok=deps)
            if not deps:
                ck.finding("R2.deps-first", "R2.deps-first/%s/bindings" % at, where,
                           "`%s` installs the import bindings of a program, but %s" % (at, why))

    # ------------------------------------------------------------ R8 the order of module bodies does not come out of a hash table
    ck.rule("R8.order-not-from-hash", "a list of module paths taken from the keys of a hash table is sorted before the function that schedules module bodies walks it "
                                      "(evaluation order must not depend on hashing or on the order of the host's supplies)", floor=1)
    n8 = 0
    for lb in sorted(list_builders):
        h = fx.fns.get(lb)
        if h is None:
            continue
        for bi, t in h.calls():
            d = t[1].get("d") or ""
            if not ("HashMap::<" in d and d.split("::")[-1] in ("keys", "iter", "into_keys")) or not t[2] or t[2][0][0] not in ("c", "m"):
                continue
            if field_of(h, t[2][0][1][0]) != PM:
                continue
            # the local collection the keys are gathered in
            vecs = []
            for l in range(len(h.locals)):
                if "Vec<ModulePath>" not in _norm(fx.tys(h.locals[l])) or fx.tys(h.locals[l]).startswith("&"):
                    continue
                dl = h.defs().get(l, [])
                if not (len(dl) == 1 and dl[0][1] == "T" and (dl[0][2][1].get("u") or "").endswith("Iterator::collect")):
                    continue
                # `keys().cloned().collect()`: back from the collect through iterator adapters (receiver argument) to the keys() call
                cur, hit = dl[0][2], False
                for _ in range(6):
                    if not cur[2] or cur[2][0][0] not in ("c", "m") or cur[2][0][1][1]:
                        break
                    src = cur[2][0][1][0]
                    if src == t[3][0]:
                        hit = True
                        break
                    d1 = M.trace_back(h, src)
                    if not d1 or d1[1] != "T":
                        break
                    if d1[2] is t:
                        hit = True
                        break
                    cur = d1[2]
                if hit:
                    vecs.append(l)
            for l in vecs:
                n8 += 1
                sorts = [b2 for b2, t2 in h.calls() if (t2[1].get("d") or "").split("::")[-1].startswith("sort") and t2[2] and t2[2][0][0] in ("c", "m")
                         and l in ancestors(h, t2[2][0][1][0])]
                walks = [b2 for b2, t2 in h.calls() if (t2[1].get("u") or "").endswith(("IntoIterator::into_iter",)) and t2[2] and t2[2][0][0] in ("c", "m")
                         and l in ancestors(h, t2[2][0][1][0])]
                ok8 = bool(sorts) and all(any(h.dominates(sb, wb) for sb in sorts) for wb in walks)
                ck.instance("R8.order-not-from-hash", "%s: keys of %s gathered in `%s`" % (lb, PM, h.var_name(l) or "_%d" % l), F.short_span(t[6]), ok=ok8)
                if not ok8:
                    ck.finding("R8.order-not-from-hash", "R8.order-not-from-hash/%s" % lb, F.short_span(t[6]),
                               "`%s` walks the keys of `%s` in hash order to decide which module bodies run next: three independent imports `./z`, `./b`, `./m` run as "
                               "b, m, z, and the order changes with the order of the host's supplies" % (lb, PM))
    ck.anchor(n8 >= 1, pre + "key lists of the pending-module table in the scheduling function (found %d)" % n8)

    # ------------------------------------------------------------ R9 an imported binding that is exported again is read through its import
    if own:
        import livebind
        ck.rule("R9.exported-import-read-through", "every arm that serves a ModuleExportGetter and reads the exporting module's binding also looks at `import_binding` "
                                                   "(`import { x } from \"./a\"; export { x }` is a live view of a's x, not an empty value slot)", floor=2)
        for f9, sp9, rv9, ri9 in livebind.export_getter_arms(fx):
            ck.instance("R9.exported-import-read-through", "%s: ModuleExportGetter arm" % f9.path, F.short_span(sp9), ok=ri9)
            if not ri9:
                ck.finding("R9.exported-import-read-through", "R9.exported-import-read-through/%s" % f9.path, F.short_span(sp9),
                           "`%s` serves an export getter with `binding.value` and never looks at `binding.import_binding`: a binding that is itself an import has an empty "
                           "value slot, so `import { x } from \"./a\"; export { x }` gives downstream importers (and get_export) undefined" % f9.path)

    # ------------------------------------------------------------ R3
    ck.rule("R3.canonical-keys", "ImportRequest.resolved_path is the result of ModulePath::resolve; the interpreter never builds a ModulePath from raw text",
            floor=1)
    for p, f in sorted(scope.items()):
        for bi, bl in enumerate(f.blocks):
            for s in bl["s"]:
                if s[0] != "a" or s[2][0] != "agg" or s[2][1].get("k") != "adt" or not s[2][1].get("p", "").endswith("ImportRequest"):
                    continue
                names = s[2][1].get("fields") or []
                idx = names.index("resolved_path") if "resolved_path" in names else None
                ok = False
                origin = "?"
                if idx is not None and idx < len(s[2][2]) and s[2][2][idx][0] in ("c", "m"):
                    dc = def_call(f, s[2][2][idx][1][0])
                    if dc is not None:
                        origin = dc[2][1].get("d") or "?"
                        ok = origin.endswith("ModulePath::resolve")
                ck.instance("R3.canonical-keys", "%s: ImportRequest.resolved_path <- %s" % (p, origin.split("::")[-1]), F.short_span(s[3]), ok=ok)
                if not ok:
                    ck.finding("R3.canonical-keys", "R3.canonical-keys/%s/request" % p, F.short_span(s[3]),
                               "`%s` builds an ImportRequest whose resolved_path comes from `%s`, not from ModulePath::resolve: two spellings of "
                               "one module are requested (and loaded) as two modules" % (p, origin))
        for bi, t in f.calls():
            d = t[1].get("d") or ""
            raw = d.endswith(("ModulePath::new",)) or ("ModulePath as std::convert::From" in d) or ("ModulePath as core::convert::From" in d)
            if raw:
                ck.instance("R3.canonical-keys", "%s: %s" % (p, d.split("::")[-1]), F.short_span(t[6]), ok=False)
                ck.finding("R3.canonical-keys", "R3.canonical-keys/%s/raw-path" % p, F.short_span(t[6]),
                           "`%s` makes a ModulePath from raw text (`%s`) inside the interpreter: a key of the module tables that did not go "
                           "through the resolver is not canonical ('./x/../a' and './a' name different entries)" % (p, d))
    # keys of the two tables are ModulePath values: count the accesses as instances (their type is the obligation)
    for p, f in sorted(scope.items()):
        for fld in (LM, PM):
            for bi, t, m in table_calls(f, fld, {"get", "contains_key", "insert", "remove"}):
                ck.instance("R3.canonical-keys", "%s: %s.%s keyed by a ModulePath" % (p, fld, m), F.short_span(t[6]), nontrivial=False)

    # ------------------------------------------------------------ R4
    ck.rule("R4.requests-once", "every NeedImports list is de-duplicated by resolved path", floor=3)
    guarded_builders = set()   # functions whose returned request list is filled by membership-guarded pushes

    def guarded_pushes(f):
        """(has pushes, all guarded) for direct pushes of ImportRequest values in f"""
        pushes = [(bi, t) for bi, t in f.calls() if (t[1].get("d") or "").endswith("Vec::<T, A>::push")
                  and t[2] and t[2][0][0] in ("c", "m") and "ImportRequest" in fx.tys(f.locals[t[2][0][1][0]])]
        allok = True

        def keyed_by_path(t):
            """the membership test compares resolved paths: `contains` on a collection of paths (not of whole requests, whose equality also looks at
            the specifier and the importer), or `any/all` with a closure that reads `resolved_path`"""
            u = t[1].get("u") or ""
            if u.endswith("contains"):
                a0 = fx.tys(f.locals[t[2][0][1][0]]) if t[2] and t[2][0][0] in ("c", "m") else ""
                return "ImportRequest" not in a0
            for a in t[2][1:]:
                if a[0] in ("c", "m"):
                    ty = fx.tys(f.locals[a[1][0]])
                    for g in fx.fns.values():
                        if g.closure and ("{closure@%s:" % g.span.split("-")[0]) in ty:
                            reads = any(x[2] == "resolved_path" for _, kind, pl, _sp in M.all_places(g) for x in F.place_fields(pl))
                            whole = any("ImportRequest" in (t2[1].get("d") or "") and (t2[1].get("u") or "").endswith(("PartialEq::eq", "PartialEq::ne")) for _, t2 in g.calls())
                            return reads and not whole
            return False
        for pb, pt in pushes:
            ok = False
            for bi, t in f.calls():
                if (t[1].get("u") or "").endswith(("Iterator::any", "Iterator::all", "contains")) and keyed_by_path(t):
                    te = true_edge(f, bi)
                    if te and (edge_dominates(f, te[1], pb) or edge_dominates(f, te[0], pb)):
                        ok = True
            if not ok:
                for bi, bl in enumerate(f.blocks):
                    tt = bl["t"]
                    if tt[0] == "switch" and tt[1][0] in ("c", "m"):
                        dd = M.trace_back(f, tt[1][1][0])
                        if dd and dd[1] == "T" and (dd[2][1].get("u") or "").endswith(("Iterator::any", "Iterator::all")) and keyed_by_path(f.blocks[dd[0]]["t"]):
                            if any(f.dominates(tb, pb) for v, tb in tt[2]) or f.dominates(tt[3], pb):
                                ok = True
            allok = allok and ok
        return bool(pushes), allok
    # helpers `push_unique(list: &mut Vec<ImportRequest>, req)` whose own pushes are all guarded
    push_helpers = set()
    for p, f in tops.items():
        if any("&mut std::vec::Vec<ImportRequest>" in _norm(fx.tys(f.locals[i])) for i in range(1, f.argc + 1)):
            has, allok = guarded_pushes(f)
            if has and allok:
                push_helpers.add(p)
    for p, f in tops.items():
        if "Vec<ImportRequest>" not in returns_ty(fx, f) or p in req_filters or p in dedupers or p in collectors or p in wrappers_of_collectors:
            continue
        has, allok0 = guarded_pushes(f)
        via_helper = any(t[1].get("d") in push_helpers for bi, t in f.calls())
        if (has and allok0) or (via_helper and (allok0 or not has)):
            guarded_builders.add(p)
    for p, f in ():
        pushes = []
        if not pushes:
            continue
        allok = True
        for pb, pt in pushes:
            ok = False
            for bi, t in f.calls():
                if (t[1].get("u") or "").endswith(("Iterator::any", "Iterator::all", "contains")) :
                    te = true_edge(f, bi)
                    if te and (edge_dominates(f, te[1], pb) or edge_dominates(f, te[0], pb)):
                        ok = True
            # `let dup = iter.any(..); if !dup { push }`: the bool is stored first
            if not ok:
                for bi, bl in enumerate(f.blocks):
                    tt = bl["t"]
                    if tt[0] == "switch" and tt[1][0] in ("c", "m"):
                        dl = tt[1][1][0]
                        dd = M.trace_back(f, dl)
                        if dd and dd[1] == "T" and (dd[2][1].get("u") or "").endswith(("Iterator::any", "Iterator::all")):
                            for v, tb in tt[2]:
                                if f.dominates(tb, pb) and tb != pb or tb == pb:
                                    ok = True
                            if f.dominates(tt[3], pb):
                                ok = True
            allok = allok and ok
        if allok:
            guarded_builders.add(p)
    # A list that is not de-duplicated may still be handed out where it is provably empty-or-unreachable for acyclic graphs:
    # behind the `is_empty()` edge of the guarded builder's result every supplied module has run or waits for another supplied
    # module; in an acyclic graph the latter cannot happen, so a still-missing import of the main program does not exist there.
    def behind_settled_loader(f, site_block):
        for cb, ct in f.calls():
            if (ct[1].get("d") or "").endswith("Vec::<T, A>::is_empty") and ct[2] and ct[2][0][0] in ("c", "m"):
                te = true_edge(f, cb)
                if not te or not edge_dominates(f, te[0], site_block):
                    continue
                for l in ancestors(f, ct[2][0][1][0]):
                    for dbi, si, rv in f.defs().get(l, []):
                        if si == "T" and rv[1].get("d") in guarded_builders and rv[1].get("d") in list_builders:
                            return True
        return False
    # helpers that wrap their parameter in the answer (`defer_program_until_imported(program, requests) -> StepResult`) are judged where they are called
    import c10 as c10_
    need_wrappers = {}
    for p, f in scope.items():
        if f.closure:
            continue
        for bl in f.blocks:
            for s in bl["s"]:
                if s[0] == "a" and s[2][0] == "agg" and s[2][1].get("k") == "adt" and s[2][1].get("p", "").endswith("StepResult") and s[2][1].get("v") == "NeedImports" \
                        and s[2][2] and s[2][2][0][0] in ("c", "m"):
                    r_ = c10_.copy_root_local(f, s[2][2][0][1][0])
                    if 1 <= r_ <= f.argc:
                        need_wrappers[p] = r_
    for p, f in sorted(scope.items()):
        sites4 = []
        for bi, bl in enumerate(f.blocks):
            for s in bl["s"]:
                if s[0] == "a" and s[2][0] == "agg" and s[2][1].get("k") == "adt" and s[2][1].get("p", "").endswith("StepResult") and s[2][1].get("v") == "NeedImports" \
                        and p not in need_wrappers:
                    sites4.append((bi, s[2][2][0] if s[2][2] else None, s[3]))
        for bi, t in f.calls():
            if t[1].get("d") in need_wrappers and need_wrappers[t[1]["d"]] - 1 < len(t[2]):
                sites4.append((bi, t[2][need_wrappers[t[1]["d"]] - 1], t[6]))
        for bi, op, sp4 in sites4:
            for s in [[None, None, None, sp4]]:
                ok = False
                origin = "?"
                if op is not None and op[0] in ("c", "m"):
                    anc = ancestors(f, op[1][0])
                    feeders = []
                    d0 = M.trace_back(f, op[1][0])
                    first = d0[2][1].get("d") if d0 and d0[1] == "T" else None
                    # `?` on a Result: look through the branch/unwrap
                    for l in sorted(anc):
                        for dbi, si, rv in f.defs().get(l, []):
                            if si == "T" and rv[1].get("local"):
                                feeders.append(rv[1].get("d"))
                    origin = (first or (feeders[0] if feeders else "?"))
                    if first in dedupers or first in guarded_builders:
                        ok = True
                    elif first is None or not (first or "").startswith(("interpreter::",) if not control else ("c09::",)):
                        # `?`/match on a call result: the innermost local producer decides
                        prod = [x for x in feeders if x in dedupers or x in guarded_builders]
                        unf = [x for x in feeders if x in req_filters or x in collectors or x in wrappers_of_collectors]
                        ok = bool(prod) and not (first in req_filters)
                        origin = prod[0] if prod else (unf[0] if unf else origin)
                        # a filter applied after the de-duplication keeps a list duplicate free
                        if first is None and prod:
                            ok = True
                    if not ok and first in req_filters and any(x in dedupers or x in guarded_builders for x in feeders):
                        ok = True   # filtering a de-duplicated list
                if not ok and behind_settled_loader(f, bi):
                    ok = True
                    origin = (origin or "?") + " (after the loader settled: unreachable for acyclic graphs)"
                ck.instance("R4.requests-once", "%s: NeedImports(%s)" % (f.path, (origin or "?").split("::")[-1]), F.short_span(s[3]), ok=ok)
                origin = (origin or "?").split(" ")[0]
                if not ok:
                    ck.finding("R4.requests-once", "R4.requests-once/%s/%s" % (f.path, (origin or "?").split("::")[-1]), F.short_span(s[3]),
                               "`%s` answers NeedImports with a list that comes from `%s` and passes no de-duplication by resolved path: a module "
                               "imported by two statements (or two modules) is requested twice" % (f.path, origin))

    # ------------------------------------------------------------ R5
    live_bindings(fx, ck, scope, tops, installers, pre, control)

    # ------------------------------------------------------------ R6
    ck.rule("R6.loader-progress", "every cycle of the ready-module loop runs a module body; the runner first removes its module from the pending table", floor=2)
    for r in runners:
        rem = table_calls(r, PM, {"remove"})
        first_ok = False
        for rb, rt, _ in rem:
            # no call to local code before the removal
            before = [bi for bi, t in r.calls() if t[1].get("local") and r.dominates(bi, rb) and bi != rb]
            rets = [bi for bi, bl in enumerate(r.blocks) if bl["t"][0] == "ret"]
            if not before and all(r.dominates(rb, x) for x in rets):
                first_ok = True
        ck.instance("R6.loader-progress", "%s removes the module from the pending table first" % r.path, F.short_span(r.span), ok=first_ok)
        if not first_ok:
            ck.finding("R6.loader-progress", "R6.loader-progress/%s/remove-first" % r.path, F.short_span(r.span),
                       "`%s` does not take its module out of `pending_module_sources` before running it (or not on every path): the ready-module "
                       "loop can pick the same module again" % r.path)
    import loops as L
    for lb in sorted(list_builders):
        h = fx.fns[lb]
        run_blocks = {bi for bi, t in h.calls() if t[1].get("d") in runner_paths}
        for hd, body in L.natural_loops(h):
            if not (run_blocks & body):
                continue
            # the loop that is not driven by an iterator: no `next()` in its header chain
            t = h.blocks[hd]["t"]
            # iterator driven: the first call reached from the header is the `next()` whose None edge leaves the loop
            x = hd
            for _ in range(4):
                if h.blocks[x]["t"][0] == "goto":
                    x = h.blocks[x]["t"][1]
            drv = h.blocks[x]["t"][0] == "call" and (h.blocks[x]["t"][1].get("u") or "").endswith("Iterator::next")
            if drv:
                ck.instance("R6.loader-progress", "%s: iterator-driven loop around the runner" % lb, F.short_span(t[-1] if isinstance(t[-1], str) else h.span),
                            nontrivial=False)
                continue
            # cycle through the header that avoids every runner call?  The non-empty edge of `ready.is_empty()` is as good as
            # the call itself when the loop over `ready` that contains the call is entered on that edge (it runs at least once).
            stop = set(run_blocks)
            for cb, ct in h.calls():
                if (ct[1].get("d") or "").endswith("Vec::<T, A>::is_empty") and ct[2] and ct[2][0][0] in ("c", "m"):
                    te = true_edge(h, cb)
                    conts = {l for l in ancestors(h, ct[2][0][1][0]) if "Vec<ModulePath>" in _norm(fx.tys(h.locals[l]))}
                    if te and conts and all(edge_dominates(h, te[1], rb) and
                                            (ancestors(h, h.blocks[rb]["t"][2][1][1][0]) & conts if len(h.blocks[rb]["t"][2]) > 1 and
                                             h.blocks[rb]["t"][2][1][0] in ("c", "m") else False)
                                            for rb in run_blocks & body):
                        stop.add(te[1])
            reach = h.reachable_from(hd, stop=stop)
            ok = hd not in reach
            ck.instance("R6.loader-progress", "%s: fixed-point loop" % lb, F.short_span(h.span), ok=ok)
            if not ok:
                ck.finding("R6.loader-progress", "R6.loader-progress/%s/cycle" % lb, F.short_span(h.span),
                           "`%s` has a cycle through its fixed-point loop that runs no module body: nothing shrinks, loading need not terminate" % lb)
    # ------------------------------------------------------------ R7
    ck.rule("R7.body-under-own-path", "a module body runs while current_module_path holds that module's path (run-time re-exports resolve against it)", floor=1)
    body_runners = {p for p in fx.fns if p.endswith(("Interpreter::execute_program_bytecode", "BytecodeVM::run", "Interpreter::run_bytecode"))}
    for r in runners:
        path_params = [i for i in range(1, r.argc + 1) if "ModulePath" in fx.tys(r.locals[i])]
        writes = []   # (block, is_install)
        for bi, bl in enumerate(r.blocks):
            for st in bl["s"]:
                if st[0] == "a" and st[1][1] and F.place_fields(st[1]) and F.place_fields(st[1])[-1][2] == "current_module_path" and st[2][0] != "ref":
                    anc = set()
                    for pl in F.rvalue_places(st[2]):
                        anc |= ancestors(r, pl[0])
                    writes.append((bi, bool(anc & set(path_params))))
        # `self.current_module_path.replace(path.clone())` / `mem::replace(&mut self.current_module_path, Some(path))`: an install by call
        for bi, t in r.calls():
            d = t[1].get("d") or ""
            if d.endswith(("Option::<T>::replace", "Option::<T>::insert", "mem::replace")) and len(t[2]) > 1 and t[2][0][0] in ("c", "m") \
                    and field_of(r, t[2][0][1][0]) == "current_module_path" and t[2][1][0] in ("c", "m"):
                writes.append((bi, bool(ancestors(r, t[2][1][1][0]) & set(path_params))))
        run_sites = [bi for bi, t in r.calls() if t[1].get("d") in body_runners]
        # `setup(..).and_then(|()| self.execute_program_bytecode(..))`: the body runs where the closure is handed to the adapter
        import re as _re
        for g in fx.fns.values():
            if g.closure and g.parent == r.path and any(t[1].get("d") in body_runners for _, t in g.calls()):
                start = g.span.split("-")[0]
                for bi, t in r.calls():
                    for a in t[2]:
                        if a[0] in ("c", "m") and ("{closure@%s:" % start) in fx.tys(r.locals[a[1][0]]):
                            run_sites.append(bi)
        if not run_sites:
            continue
        installs = {b for b, ins in writes if ins}
        others = {b for b, ins in writes if not ins}
        for rb in run_sites:
            ok = any(r.dominates(b, rb) for b in installs)
            for ob in others:
                if rb in r.reachable_from(ob, stop=installs) or (ob == rb):
                    ok = False
            # a write in the same block as an install but after it
            ck.instance("R7.body-under-own-path", "%s runs the body under its own path" % r.path, F.short_span(r.blocks[rb]["t"][6]), ok=ok)
            if not ok:
                ck.finding("R7.body-under-own-path", "R7.body-under-own-path/%s" % r.path, F.short_span(r.blocks[rb]["t"][6]),
                           "`%s` runs the module body while `current_module_path` does not (any longer) hold the module's own path: "
                           "`export { v } from \"./impl.ts\"` in `/app/lib/index.ts` is resolved at run time against the importer's directory" % r.path)
    if own and not control:
        # R3b: R3 makes every table key a result of ModulePath::resolve; one instance per file also needs that result to be canonical.  The deciding
        # rules are C18's R1 (every ModulePath the resolver builds comes from the normaliser) and R2 (the normaliser's three segment classes): they are
        # run here on the same facts and their instances and findings are taken over under this rule's name.
        import c18
        ckx = Check("C18", tier, "", [])
        c18.run(tier, fx, ckx)
        name3b = "R3b.resolve-is-canonical"
        ck.rule(name3b, "two spellings of one file give one key: every ModulePath that resolve() builds holds the normaliser's result and the normaliser "
                        "classifies every segment (C18 R1 + R2 on the same facts)", floor=5)
        for rn in ("R1.normalised-returns", "R2.segment-classes"):
            r_ = ckx.rules.get(rn)
            if r_ is None:
                ck.closed_fail.append("R3b: C18 rule %s produced nothing" % rn)
                continue
            bad = {f_[1] for f_ in ckx.findings if f_[0] == rn}
            for ident in sorted(r_["nontrivial"]):
                ck.instance(name3b, "%s: %s" % (rn.split(".")[0], ident), None, ok=True)
            for f_ in ckx.findings:
                if f_[0] == rn:
                    ck.instance(name3b, "%s: %s" % (rn.split(".")[0], f_[1]), f_[2], ok=False)
                    ck.finding(name3b, name3b + "/" + f_[1], f_[2], f_[3] + " - two spellings of one file become two modules, each requested and evaluated", f_[4])
    if not own:
        return None
    ctl = F.load_fixture()
    ck2 = Check("C09", tier, "", [])
    run(tier, ctl, ck2, control=True)
    got = {f[0] for f in ck2.findings}
    need = {"R1.run-once", "R2.deps-first", "R3.canonical-keys", "R4.requests-once", "R5.live-bindings", "R6.loader-progress"}
    if not need <= got:
        ck.closed_fail.append("control failed: the fixture loader must be reported by %s, got %s" % (sorted(need), sorted(got)))
    ck.note("positive control (fixture c09::Interpreter) reported by: %s" % sorted(got))
    return ck.finish()


def producer_calls(f, op, depth=0, seen=None):
    """local-crate callees whose results flow into an operand (through moves, `?`, clones and aggregates)"""
    seen = seen if seen is not None else set()
    out = []
    if op[0] not in ("c", "m") or depth > 10:
        return out
    l = op[1][0]
    if l in seen:
        return out
    seen.add(l)
    for bi, si, rv in f.defs().get(l, []):
        if si == "T":
            out.append(rv[1].get("d") or "?")
            for a in rv[2][:1]:
                out += producer_calls(f, a, depth + 1, seen)
        else:
            for pl in F.rvalue_places(rv):
                out += producer_calls(f, ["c", pl], depth + 1, seen)
    return out


_smb = {}


def source_module_builders(fx, tops):
    """functions that evaluate an *internal* source module (registered by the host up front, resolved on demand)"""
    if id(fx) in _smb:
        return _smb[id(fx)]
    out = set()
    for p, f in tops.items():
        if any("InternalModuleKind" in (sw[1] or "") for sw in M.enum_switches(fx, f)):
            # the function dispatching on the kind and the helpers it calls for the Source kind
            for bi, t in f.calls():
                if t[1].get("local") and t[1].get("d") in tops:
                    out.add(t[1].get("d"))
            out.add(p)
    _smb[id(fx)] = out
    return out


def live_bindings(fx, ck, scope, tops, installers, pre, control):
    ck.rule("R5.live-bindings", "imports are bound through ImportBinding; exports with a scope binding are published as getters; re-exports delegate",
            floor=4)
    cg, _ = fx.callgraph()
    builders = {f.parent if f.closure else p for p, f in scope.items() for bl in f.blocks for s in bl["s"]
                if s[0] == "a" and s[2][0] == "agg" and s[2][1].get("k") == "adt" and s[2][1].get("p", "").endswith("ImportBinding")}
    ck.anchor(bool(builders), pre + "a function that builds ImportBinding records")
    reach_b = set(builders)
    changed = True
    while changed:
        changed = False
        for p in tops:
            if p not in reach_b and cg.get(p, set()) & reach_b:
                reach_b.add(p)
                changed = True
    for ip in sorted(installers):
        f = fx.fns[ip]
        for sw in M.enum_switches(fx, f):
            if not sw[1].endswith("ImportSpecifier"):
                continue
            for var in ("Named", "Default"):
                if var not in sw[3]:
                    continue
                # must-pass-through: from the arm, the next specifier (the header of the innermost loop around the match) is reached only
                # through a block that creates the ImportBinding - inside the arm, or after the arms join (`let (local, key) = match ..`)
                creators = {bi for bi, t in f.calls() if t[1].get("d") in (reach_b - {ip})}
                creators |= {bi for bi, bl in enumerate(f.blocks) for s in bl["s"]
                             if s[0] == "a" and s[2][0] == "agg" and s[2][1].get("k") == "adt" and s[2][1].get("p", "").endswith("ImportBinding")}
                import loops as L
                inner = [h for h, body in L.natural_loops(f) if sw[0] in body]
                inner.sort(key=lambda h: len(dict(L.natural_loops(f))[h]))
                ok = bool(creators)
                if inner and creators:
                    seenb, work = set(), [sw[3][var]]
                    while work:
                        b = work.pop()
                        if b in seenb or b in creators:
                            continue
                        seenb.add(b)
                        if b == inner[0]:
                            ok = False
                            break
                        work.extend(f.succ(b))
                elif creators:
                    region = M.dominated_region(f, sw[3][var])
                    ok = bool(creators & region)
                ck.instance("R5.live-bindings", "%s / ImportSpecifier::%s binds through an ImportBinding" % (ip, var),
                            F.short_span(f.blocks[sw[3][var]]["t"][-1]) if isinstance(f.blocks[sw[3][var]]["t"][-1], str) else F.short_span(f.span), ok=ok)
                if not ok:
                    ck.finding("R5.live-bindings", "R5.live-bindings/%s/%s" % (ip, var), F.short_span(f.span),
                               "`%s` binds an `ImportSpecifier::%s` without creating an ImportBinding: the importer sees the value the export had "
                               "at import time, not its current value" % (ip, var))
    # exporters: match on ModuleExport
    nfin = 0
    for p, f in sorted(tops.items()):
        for sw in M.enum_switches(fx, f):
            if not sw[1].endswith("ModuleExport"):
                continue
            nfin += 1
            for var, getter in (("Direct", "ModuleExportGetter"), ("ReExport", "ModuleReExportGetter")):
                if var not in sw[3]:
                    continue
                region = M.dominated_region(f, sw[3][var])
                made = [(bi, s) for bi in region for s in f.blocks[bi]["s"]
                        if s[0] == "a" and s[2][0] == "agg" and s[2][1].get("k") == "adt" and s[2][1].get("v") == getter]
                ok = bool(made)
                why = "publishes no `%s`" % getter
                if ok and var == "Direct":
                    # the payload `value` is stored only on the no-binding edge of a contains_key test
                    vals = set()
                    for bi in region:
                        for s in f.blocks[bi]["s"]:
                            if s[0] == "a" and s[2][0] == "use" and s[2][1][0] in ("c", "m"):
                                fl = [x for x in F.place_fields(s[2][1][1]) if x[0].endswith("ModuleExport") and x[2] == "value"]
                                if fl:
                                    vals.add(s[1][0])
                    stores = [bi for bi, t in f.calls() if bi in region and any(a[0] in ("c", "m") and ancestors(f, a[1][0]) & vals for a in t[2])
                              and (t[1].get("d") or "").split("::")[-1] in ("set_property", "insert", "define_property", "data")]
                    tests = [(bi, true_edge(f, bi)) for bi, t in f.calls() if bi in region and (t[1].get("d") or "").endswith("contains_key")]
                    # `let has = {..contains_key..}`: the bool is merged into a local and switched on later
                    sw2 = []
                    for bi in region:
                        tt = f.blocks[bi]["t"]
                        if tt[0] == "switch" and tt[1][0] in ("c", "m") and fx.tys(f.locals[tt[1][1][0]]) == "bool":
                            anc = ancestors(f, tt[1][1][0])
                            if any(f.blocks[cb]["t"][3][0] in anc for cb, _ in tests):
                                zero = [tb for v, tb in tt[2] if v == "0"]
                                if zero:
                                    sw2.append((tt[3], zero[0]))
                    for sb in stores:
                        if not any(edge_dominates(f, z, sb) for tr, z in sw2):
                            ok = False
                            why = "stores the export's value at finalisation time on a path that is not the no-binding edge"
                    for bi, s in made:
                        if sw2 and not any(edge_dominates(f, tr, bi) for tr, z in sw2):
                            ok = False
                            why = "creates the getter on a path that is not the has-binding edge"
                    if not sw2:
                        ok = False
                        why = "does not test whether the module scope has the binding"
                ck.instance("R5.live-bindings", "%s / ModuleExport::%s -> %s" % (p, var, getter), F.short_span(f.span), ok=ok)
                if not ok:
                    ck.finding("R5.live-bindings", "R5.live-bindings/%s/%s" % (p, var), F.short_span(f.span),
                               "`%s` %s for `ModuleExport::%s`: importers read a snapshot instead of the exporter's current value" % (p, why, var))
    ck.anchor(nfin >= 1, pre + "export finalisers (match on ModuleExport)")
    # the VM arm of the re-export opcode builds a delegating record
    for p, f in sorted(fx.fns.items()):
        if control or f.closure or not p.endswith("::execute_op"):
            continue
        for sw in M.enum_switches(fx, f):
            if not sw[1].endswith("::Op") or "ReExport" not in sw[3]:
                continue
            region = M.dominated_region(f, sw[3]["ReExport"])
            made = {s[2][1].get("v") for bi in region for s in f.blocks[bi]["s"]
                    if s[0] == "a" and s[2][0] == "agg" and s[2][1].get("k") == "adt" and s[2][1].get("p", "").endswith("ModuleExport")}
            ok = made == {"ReExport"}
            # the record pairs the module the specifier names with the key the instruction names; a module obtained by transforming that
            # lookup (following the chain of barrels to its origin) must come with the key *that* lookup found - both from one call
            for bi in region:
                for st in f.blocks[bi]["s"]:
                    if st[0] == "a" and st[2][0] == "agg" and st[2][1].get("p", "").endswith("ModuleExport") and st[2][1].get("v") == "ReExport":
                        flds = st[2][1].get("fields") or []
                        if "source_module" in flds and "source_key" in flds:
                            mo = st[2][2][flds.index("source_module")]
                            ko = st[2][2][flds.index("source_key")]
                            mcalls = producer_calls(f, mo)
                            kcalls = producer_calls(f, ko)
                            extra = [c for c in mcalls if not c.endswith(("::resolve_module", "ops::Try>::branch", "cheap_clone", "Clone>::clone"))
                                     and c.startswith("interpreter::")]
                            if extra and not (set(extra) & set(kcalls)):
                                ok = False
                                ck.finding("R5.live-bindings", "R5.live-bindings/%s/Op::ReExport/module-from-%s" % (p, extra[0].split("::")[-1]), F.short_span(st[3]),
                                           "the `Op::ReExport` arm takes `source_module` from `%s` but `source_key` from the instruction: when a barrel in the "
                                           "chain renames the binding (`export { hits as total } from`), the record points at the origin module under the "
                                           "name the binding has one hop earlier" % extra[0])
            ck.instance("R5.live-bindings", "%s / Op::ReExport records ModuleExport::ReExport" % p, F.short_span(f.span), ok=ok)
            if not ok:
                ck.finding("R5.live-bindings", "R5.live-bindings/%s/Op::ReExport" % p, F.short_span(f.span),
                           "the `Op::ReExport` arm records %s instead of a delegating `ModuleExport::ReExport`: `export { x } from` copies the "
                           "value at export time" % sorted(made))
