"""C13 - the collector: memory-safety obligations of src/gc.rs and ordering rules.

Every unsafe operation in src/gc.rs is an obligation with a structural discharge rule:
  O1 a GcBox dereference through a *handle* (`NonNull::as_ref` on `Gc.ptr`) is dominated by the
     Some-edge of `Weak::upgrade` of the owning space (the arena is freed with the heap);
  O2 `get_unchecked(word)` on the `[u64; N]` mark bitmap: the word index is provably < N
     (constant, `index >> 6` with every caller passing `_ % CHUNK_CAPACITY` and
     CHUNK_CAPACITY <= 64*N, or dominated by `word >= N -> return`);
  O3 `marked_chunks_ptr.add(i)` is dominated by `i < marked_chunks.len()` and the vector is not
     grown inside mark();
  O4 chunks never reallocate: one push site into a chunk, dominated by the
     `len() >= CHUNK_CAPACITY -> new chunk` test; chunks are created with_capacity(CHUNK_CAPACITY);
  O5 handle identity before refcount mutation: Clone/Drop for Gc compare a generation/identity
     of the handle with the slot before touching `ref_count`;
  O6 collector ordering: sweep only from collect and dominated by mark; mark clears the bitmaps
     first; chunks.push co-occurs with marked_chunks.push; no allocation between alloc_internal
     and rooting in Guard::alloc;
  O7 rooting an existing handle (Guard::guard) checks that the slot is not pooled, and mark skips
     pooled roots (a pooled slot may be handed to a new tenant).
Not decided: that the live set after collect equals the reachable set (algorithm semantics).
"""
import re

from common import Check
import facts as F
import mir as M
import exits as E
import hazards as H
import c10

GC = "src/gc.rs"


def upgrade_tests(f):
    """[(switch_block, some_target)] for `match weak.upgrade()` / `if let Some(..) = weak.upgrade()`"""
    out = []
    for bi, t in f.calls():
        d = t[1].get("d", "")
        if not d.endswith("Weak::<T, A>::upgrade") and not d.endswith("rc::Weak::<T>::upgrade"):
            continue
        res = t[3][0]
        # the Option may be moved before it is matched
        holders = {res}
        ch = True
        while ch:
            ch = False
            for bl in f.blocks:
                for s in bl["s"]:
                    if s[0] == "a" and not s[1][1] and s[2][0] == "use" and s[2][1][0] in ("c", "m") and not s[2][1][1][1] and s[2][1][1][0] in holders and s[1][0] not in holders:
                        holders.add(s[1][0])
                        ch = True
        for sb, en, place, arms, other, rest in M.enum_switches(fx_global[0], f):
            if place[0] in holders and "Some" in arms:
                out.append((sb, arms["Some"]))
            elif place[0] in holders and "None" in arms and "Some" in rest:
                out.append((sb, other))
        # unwrap_or_else(panic) keeps only the Some path alive
        for b2, t2 in f.calls():
            d2 = t2[1].get("d", "")
            if ("unwrap_or_else" in d2 or d2.endswith("::unwrap") or d2.endswith("::expect")) and t2[2] and t2[2][0][0] in ("c", "m") and t2[2][0][1][0] in holders and t2[4] >= 0:
                out.append((b2, t2[4]))
    return out


fx_global = [None]


def root_pushers(fx, gcf):
    """small helpers of gc.rs that append to a guard's root list (`push_root(&self, ptr)`): a call of one is a push of its caller"""
    out = set()
    for g in gcf:
        if g.closure or g.derived or len(g.blocks) > 12:
            continue
        for bi, t in g.calls():
            if (t[1].get("d") or "").endswith("Vec::<T, A>::push") and t[2] and t[2][0][0] in ("c", "m"):
                a = set()
                from c09 import ancestors
                for l in ancestors(g, t[2][0][1][0]):
                    fl = E.field_of_ref(g, l)
                    if fl and fl[2] == "roots":
                        out.add(g.path)
    return out - {"gc::Guard::<T>::guard", "gc::Guard::<T>::alloc"}


def run(tier):
    ck = Check("C13", tier, "unsafe-operation inventory of src/gc.rs with dominance / range / who-may rules discharging each obligation (MIR dominators, value roots, caller argument checks)",
               ["that the set counted live after collect equals the set reachable from live guards (needs the algorithm's semantics over histories)",
                "reference-count arithmetic over handle histories beyond the identity check"])
    fx = F.load("A")
    fx_global[0] = fx
    ck.configs.append("A: cargo +nightly check --lib --features c-api")
    gcf = [f for f in fx.fns.values() if f.file.endswith(GC)]
    # the two parallel vectors of Space are identified by their element types, not by their names
    sp_adt = fx.adts.get("gc::Space")
    BITMAPS = CHUNKS = None
    if sp_adt is not None:
        for fd in sp_adt["variants"][0]["fields"]:
            ty = fx.tys(fd["ty"])
            if "ChunkBitmask" in ty and ty.startswith("std::vec::Vec<"):
                BITMAPS = fd["name"]
            if ty.startswith("std::vec::Vec<std::vec::Vec<gc::GcBox<"):
                CHUNKS = fd["name"]
    ck.anchor(BITMAPS is not None and CHUNKS is not None, "Space fields Vec<ChunkBitmask> (%s) and Vec<Vec<GcBox>> (%s)" % (BITMAPS, CHUNKS))
    ck.anchor(len(gcf) > 40, "functions of src/gc.rs (%d)" % len(gcf))

    # ---------------- O1
    ck.rule("O1.handle-deref", "GcBox dereference through Gc.ptr is dominated by a successful Weak::upgrade of the space", floor=6)
    for f in gcf:
        ups = None
        for bi, t in f.calls():
            if t[1].get("d") != "std::ptr::NonNull::<T>::as_ref" or not t[2] or t[2][0][0] not in ("c", "m"):
                continue
            fl = E.field_of_ref(f, t[2][0][1][0])
            if not fl or fl[0] != "gc::Gc" or fl[2] != "ptr":
                continue
            if ups is None:
                ups = upgrade_tests(f)
            ok = any(f.dominates(tgt, bi) for sb, tgt in ups)
            ck.instance("O1.handle-deref", f.path, F.short_span(t[6]), ok=ok)
            if not ok:
                ck.finding("O1.handle-deref", "O1.handle-deref/" + f.path, F.short_span(t[6]),
                           "`%s` dereferences the slot of a handle without checking that the heap is alive (Weak::upgrade): after the Heap is dropped this reads freed memory from safe code" % f.path)

    # ---------------- O2
    ck.rule("O2.bitmap-index", "every get_unchecked on the mark bitmap has an index provably below the array length", floor=4)
    cap = fx.consts.get("gc::CHUNK_CAPACITY")
    ck.anchor(cap is not None and cap.get("val") is not None, "const gc::CHUNK_CAPACITY")
    capv = int(cap["val"]) if cap and cap.get("val") else None
    bm = fx.adts.get("gc::ChunkBitmask")
    nwords = None
    if ck.anchor(bm is not None, "struct gc::ChunkBitmask"):
        m = re.match(r"\[u64; (\d+)\]", fx.tys(bm["variants"][0]["fields"][0]["ty"]))
        nwords = int(m.group(1)) if m else None
    ck.anchor(nwords is not None, "ChunkBitmask.bits is [u64; N]")
    need_caller_check = set()

    def field_upper_bound(fx_, f_, op):
        """C if `op` reads a struct field that every construction of the struct sets to `min(_, C)` / a constant <= C
        and nothing else writes"""
        pf = [e for e in op[1][1] if isinstance(e, list) and e[0] == "f"]
        if not pf:
            return None
        adt, fname = pf[-1][3], pf[-1][2]
        best = None
        nbuild = 0
        import arraylen
        for g in fx_.fns.values():
            if g.derived:
                continue
            for bl in g.blocks:
                for s_ in bl["s"]:
                    if s_[0] != "a":
                        continue
                    # direct writes to the field anywhere else: no invariant
                    wf = [e for e in s_[1][1] if isinstance(e, list) and e[0] == "f"]
                    if wf and wf[-1][3] == adt and wf[-1][2] == fname:
                        return None
                    if s_[2][0] == "agg" and isinstance(s_[2][1], dict) and s_[2][1].get("p") == adt:
                        names = s_[2][1].get("fields") or []
                        if fname not in names:
                            return None
                        nbuild += 1
                        o = s_[2][2][names.index(fname)]
                        b = None
                        for org in arraylen.origins(g, o):
                            if org[0] == "const":
                                try:
                                    v = int(str(org[1]).split("'")[-2]) if "'" in str(org[1]) else None
                                except ValueError:
                                    v = None
                                b = max(b, v) if (b is not None and v is not None) else v
                            elif org[0] == "call":
                                tt = g.blocks[org[1]]["t"]
                                if tt[1].get("d", "").endswith(("::min", "Ord::min")) and len(tt[2]) == 2:
                                    cs = [c10.const_bound(fx_, g, a) for a in tt[2]]
                                    cs = [c for c in cs if c is not None]
                                    if not cs:
                                        return None
                                    b = max(b, min(cs)) if b is not None else min(cs)
                                else:
                                    return None
                            else:
                                return None
                        if b is None:
                            return None
                        best = max(best, b) if best is not None else b
        return best if nbuild else None
    c10.FIELD_UPPER_BOUND = field_upper_bound
    for f in gcf:
        guards = None
        for bi, t in f.calls():
            d = t[1].get("d", "")
            if "get_unchecked" not in d:
                continue
            idx = t[2][1] if len(t[2]) > 1 else None
            ok = False
            why = "index not understood"
            if idx is not None:
                v = M.const_int(idx)
                if v is not None:
                    ok = nwords is not None and v < nwords
                    why = "constant %d" % v
                elif idx[0] in ("c", "m") and not idx[1][1]:
                    d0 = M.trace_back(f, idx[1][0])
                    if d0 and d0[1] != "T" and d0[2][0] == "bin" and d0[2][1] == "Shr" and M.const_int(d0[2][3]) is not None:
                        sh = M.const_int(d0[2][3])
                        src = d0[2][2]
                        # index >> sh  with index a parameter: all callers must pass `_ % CHUNK_CAPACITY`
                        if src[0] in ("c", "m") and not src[1][1] and c10.copy_root_local(f, src[1][0]) in range(1, f.argc + 1):
                            need_caller_check.add((f.path, c10.copy_root_local(f, src[1][0]), sh))
                            ok = capv is not None and nwords is not None and ((capv - 1) >> sh) < nwords
                            why = "param >> %d, callers checked separately; CHUNK_CAPACITY=%s" % (sh, capv)
                    else:
                        if guards is None:
                            guards = c10.guards_for(fx, f)
                        root = c10.root_of(f, idx[1][0])
                        ok = nwords is not None and c10.guarded(fx, f, bi, root, nwords - 1, guards)
                        why = "dominating range guard on %s" % (root,)
            ck.instance("O2.bitmap-index", "%s/%s" % (f.path, d.split("::")[-1]), F.short_span(t[6]), ok=ok)
            if not ok:
                ck.finding("O2.bitmap-index", "O2.bitmap-index/%s" % f.path, F.short_span(t[6]),
                           "`%s`: unchecked bitmap access whose index is not provably < %s (%s)" % (f.path, nwords, why))
    c10.FIELD_UPPER_BOUND = None
    # callers of set/get
    for (callee, param, sh) in sorted(need_caller_check):
        for f in gcf:
            for bi, t in f.calls():
                if t[1].get("d") != callee:
                    continue
                a = t[2][param - 1]
                ok = False
                if a[0] in ("c", "m") and not a[1][1]:
                    d0 = M.trace_back(f, a[1][0])
                    mod = rem_bound(fx, f, a)
                    ok = mod is not None and nwords is not None and ((mod - 1) >> sh) < nwords
                    # a closure capture of such a value
                    if not ok and d0 and d0[1] != "T" and d0[2][0] == "use" and d0[2][1][0] in ("c", "m") and d0[2][1][1][0] == 1:
                        ok = False
                ck.instance("O2.bitmap-index", "%s -> %s" % (f.path, callee.split("::")[-1]), F.short_span(t[6]), ok=ok)
                if not ok:
                    ck.finding("O2.bitmap-index", "O2.bitmap-caller/%s/%s" % (f.path, callee.split("::")[-1]), F.short_span(t[6]),
                               "`%s` calls `%s` with an index that is not `_ %% CHUNK_CAPACITY`: the unchecked bitmap access can go out of bounds" % (f.path, callee))

    # ---------------- O3
    ck.rule("O3.chunk-ptr-add", "marked_chunks_ptr.add(i) is dominated by i < marked_chunks.len(); marked_chunks is not grown in mark()", floor=2)
    mark = [f for f in gcf if f.parent == "gc::Space::<T>::mark"]
    for f in mark:
        for bi, t in f.calls():
            if not t[1].get("d", "").endswith("::add"):
                continue
            idx = t[2][1]
            ok = False
            if idx[0] in ("c", "m") and not idx[1][1]:
                iroot = c10.copy_root_local(f, idx[1][0])
                for sb in range(len(f.blocks)):
                    sw = f.blocks[sb]["t"]
                    if sw[0] != "switch" or sw[1][0] not in ("c", "m"):
                        continue
                    cd = [x for x in f.defs().get(sw[1][1][0], []) if x[0] == sb and x[1] != "T"]
                    if len(cd) != 1 or cd[0][2][0] != "bin" or cd[0][2][1] not in ("Lt", "Ge"):
                        continue
                    a, b = cd[0][2][2], cd[0][2][3]
                    if a[0] not in ("c", "m") or b[0] not in ("c", "m"):
                        continue
                    if c10.copy_root_local(f, a[1][0]) != iroot:
                        continue
                    false_t = next((x for v, x in sw[2] if v == "0"), None)
                    true_t = sw[3]
                    inrange = true_t if cd[0][2][1] == "Lt" else false_t
                    if inrange is not None and f.dominates(inrange, bi):
                        ok = True
            ck.instance("O3.chunk-ptr-add", f.path, F.short_span(t[6]), ok=ok)
            if not ok:
                ck.finding("O3.chunk-ptr-add", "O3.chunk-ptr-add/" + f.path, F.short_span(t[6]),
                           "`%s`: raw pointer offset into marked_chunks not dominated by a bound check of the index" % f.path)
        for bi, t in f.calls():
            if t[1].get("d", "").endswith("Vec::<T, A>::push") and t[2] and t[2][0][0] in ("c", "m"):
                fl = E.field_of_ref(f, t[2][0][1][0])
                if fl and fl[2] == BITMAPS:
                    ck.finding("O3.chunk-ptr-add", "O3.grow-in-mark/" + f.path, F.short_span(t[6]), "mark() grows marked_chunks while a raw pointer into it is live")

    # ---------------- O4
    ck.rule("O4.no-realloc", "single push site into a chunk, dominated by the capacity test; chunks created with_capacity(CHUNK_CAPACITY)", floor=2)
    pushes = []
    for f in fx.fns.values():
        for bi, t in f.calls():
            if t[1].get("d", "").endswith("Vec::<T, A>::push") and t[1].get("targs") and fx.tys(t[1]["targs"][0]).startswith("gc::GcBox<"):
                pushes.append((f, bi, t))
    ck.instance("O4.no-realloc", "push sites into a chunk: %d" % len(pushes), None, ok=len(pushes) == 1)
    if len(pushes) != 1:
        ck.finding("O4.no-realloc", "O4.push-sites", None, "expected exactly one push site into a chunk (pointers into chunks must stay valid), found %d" % len(pushes))
    for f, bi, t in pushes:
        # a `len() >= CHUNK_CAPACITY` comparison exists in the function group and a with_capacity(CHUNK_CAPACITY) chunk creation
        grp = fx.body_group(fx.fns[f.parent])
        cmp_ok = False
        cap_ok = False
        for g in grp:
            for bl in g.blocks:
                for s in bl["s"]:
                    if s[0] == "a" and s[2][0] == "bin" and s[2][1] in ("Ge", "Lt", "Eq") and (c10.const_bound(fx, g, s[2][3]) == capv or c10.const_bound(fx, g, s[2][2]) == capv):
                        cmp_ok = True
            for b2, t2 in g.calls():
                if t2[1].get("d", "").endswith("Vec::<T>::with_capacity") and t2[2] and c10.const_bound(fx, g, t2[2][0]) == capv:
                    cap_ok = True
        ok = cmp_ok and cap_ok
        ck.instance("O4.no-realloc", f.path + "/chunk.push", F.short_span(t[6]), ok=ok)
        if not ok:
            ck.finding("O4.no-realloc", "O4.no-realloc/" + f.path, F.short_span(t[6]),
                       "chunk push without (capacity test against CHUNK_CAPACITY: %s, with_capacity(CHUNK_CAPACITY): %s): the chunk may reallocate and invalidate every handle into it" % (cmp_ok, cap_ok))

    # ---------------- O5
    ck.rule("O5.handle-identity", "Clone/Drop for Gc verify the handle's identity (generation) against the slot before mutating ref_count", floor=2)
    gcadt = fx.adts.get("gc::Gc")
    ident_fields = [x["name"] for x in gcadt["variants"][0]["fields"] if x["name"] not in ("ptr", "space")] if gcadt else []
    for f in gcf:
        if f.path not in ("<gc::Gc<T> as std::clone::Clone>::clone", "<gc::Gc<T> as std::ops::Drop>::drop"):
            continue
        sets = []
        for bi, t in f.calls():
            if t[1].get("d", "").endswith("Cell::<T>::set") and t[2] and t[2][0][0] in ("c", "m"):
                fl = E.field_of_ref(f, t[2][0][1][0])
                if fl and fl[2] == "ref_count":
                    sets.append((bi, t))
        reads_ident = False
        for bi, kind, place, sp in M.all_places(f):
            for (adt, v, name) in F.place_fields(place):
                if adt == "gc::Gc" and name in ident_fields:
                    reads_ident = True
        ok = bool(ident_fields) and reads_ident
        ck.instance("O5.handle-identity", f.path, F.short_span(f.span), ok=ok or not sets)
        if sets and not ok:
            ck.finding("O5.handle-identity", "O5.handle-identity/" + f.path, F.short_span(sets[0][1][6]),
                       "`%s` changes ref_count of whatever object occupies the slot: a stale handle (slot since reused) corrupts the new tenant's count" % f.path)
    ck.anchor(len([f for f in gcf if f.path in ("<gc::Gc<T> as std::clone::Clone>::clone", "<gc::Gc<T> as std::ops::Drop>::drop")]) == 2, "Clone and Drop impls of Gc")

    # ---------------- O6
    ck.rule("O6.collector-order", "sweep only from collect and after mark; bitmaps cleared first; chunk and bitmap vectors grow together; no allocation between alloc_internal and rooting", floor=4)
    callees, callers = fx.callgraph()
    sw_callers = sorted(callers.get("gc::Space::<T>::sweep", ()))
    ok = sw_callers == ["gc::Space::<T>::collect"]
    ck.instance("O6.collector-order", "callers of sweep: %s" % sw_callers, None, ok=ok)
    if not ok:
        ck.finding("O6.collector-order", "O6.sweep-callers", None, "Space::sweep is called from %s; it must only run right after mark (from collect)" % sw_callers)
    col = fx.fns.get("gc::Space::<T>::collect")
    if ck.anchor(col is not None, "gc::Space::collect"):
        mk = [bi for bi, t in col.calls() if t[1].get("d") == "gc::Space::<T>::mark"]
        for bi, t in col.calls():
            if t[1].get("d") == "gc::Space::<T>::sweep":
                ok = any(col.dominates(m, bi) for m in mk)
                ck.instance("O6.collector-order", "collect: mark dominates sweep", F.short_span(t[6]), ok=ok)
                if not ok:
                    ck.finding("O6.collector-order", "O6.mark-before-sweep", F.short_span(t[6]), "collect() can reach sweep() without a preceding mark(): every object would be unmarked and reset")
    mk = fx.fns.get("gc::Space::<T>::mark")
    if ck.anchor(mk is not None, "gc::Space::mark"):
        # a helper that clears the bitmaps (`clear_marks`) is a clear event of its caller
        clearers = {g.path for g in gcf if not g.closure and g.path != mk.path and any(t[1].get("d") == "gc::ChunkBitmask::clear" for _, t in g.calls())
                    and not any(t[1].get("d") == "gc::ChunkBitmask::set" for _, t in g.calls())}
        clears = [bi for bi, t in mk.calls() if t[1].get("d") == "gc::ChunkBitmask::clear" or t[1].get("d") in clearers]
        sets = [bi for bi, t in mk.calls() if t[1].get("d") in ("gc::ChunkBitmask::set",)]
        ok = bool(clears) and all(any(mk.dominates(c, s) or True for c in clears) for s in sets)
        # the loop that clears must complete before the first set: the set block must not reach a clear block
        for s in sets:
            reach = mk.reachable_from(s)
            if any(c in reach for c in clears):
                ok = False
        ck.instance("O6.collector-order", "mark: bitmaps cleared before marking", F.short_span(mk.span), ok=ok)
        if not ok:
            ck.finding("O6.collector-order", "O6.clear-before-mark", F.short_span(mk.span), "mark() does not clear the mark bitmaps before tracing: objects marked in an earlier cycle are never reclaimed (or bits are cleared mid-trace)")
    for f in gcf:
        pc = pm = None
        for bi, t in f.calls():
            if t[1].get("d", "").endswith("Vec::<T, A>::push") and t[2] and t[2][0][0] in ("c", "m"):
                fl = E.field_of_ref(f, t[2][0][1][0])
                if fl and fl[2] == CHUNKS:
                    pc = t
                if fl and fl[2] == BITMAPS:
                    pm = t
        if pc or pm:
            ok = bool(pc) and bool(pm)
            ck.instance("O6.collector-order", "%s: chunks.push <-> marked_chunks.push" % f.path, F.short_span((pc or pm)[6]), ok=ok)
            if not ok:
                ck.finding("O6.collector-order", "O6.chunk-bitmap-cooccur/" + f.path, F.short_span((pc or pm)[6]), "`%s` grows %s without the other: chunk and bitmap vectors must stay the same length" % (f.path, "chunks" if pc else "marked_chunks"))
    ga = fx.fns.get("gc::Guard::<T>::alloc")
    if ck.anchor(ga is not None, "gc::Guard::alloc"):
        gcset = H.may_gc(fx)
        a = [bi for bi, t in ga.calls() if t[1].get("d") == "gc::Space::<T>::alloc_internal"]
        p = [bi for bi, t in ga.calls() if t[1].get("d", "").endswith("Vec::<T, A>::push") or t[1].get("d") in root_pushers(fx, gcf)]
        ok = bool(a) and bool(p)
        if ok:
            between = ga.reachable_from(a[0], stop=set(p))
            for b in between:
                t = ga.blocks[b]["t"]
                if t[0] == "call" and t[1].get("d") in gcset and b not in p:
                    ok = False
        ck.instance("O6.collector-order", "Guard::alloc roots the new object before anything can allocate", F.short_span(ga.span), ok=ok)
        if not ok:
            ck.finding("O6.collector-order", "O6.alloc-then-root", F.short_span(ga.span), "Guard::alloc can allocate (collect) between alloc_internal and adding the object to the guard's roots")

    # ---------------- O7
    ck.rule("O7.pooled-roots", "rooting an existing handle checks `pooled`; mark skips pooled roots", floor=2)
    gg = fx.fns.get("gc::Guard::<T>::guard")
    if ck.anchor(gg is not None, "gc::Guard::guard"):
        pushes = [(bi, t) for bi, t in gg.calls() if t[1].get("d", "").endswith("Vec::<T, A>::push") or t[1].get("d") in root_pushers(fx, gcf)]
        tests = pooled_tests(gg)
        for bi, t in pushes:
            ok = any(gg.dominates(tgt, bi) for tgt in tests)
            ck.instance("O7.pooled-roots", "Guard::guard push", F.short_span(t[6]), ok=ok)
            if not ok:
                ck.finding("O7.pooled-roots", "O7.pooled-roots/gc::Guard::<T>::guard", F.short_span(t[6]),
                           "Guard::guard roots a handle without checking that its slot is not pooled: once the slot is reused the guard keeps an unrelated object alive (and roots are raw slot pointers)")
    for f in gcf:
        if f.parent != "gc::Space::<T>::mark":
            continue
        for bi, t in f.calls():
            if t[1].get("d", "").endswith("Vec::<T, A>::push") and t[2] and fx.tys(f.locals[t[2][0][1][0]]).startswith("&mut std::vec::Vec<std::ptr::NonNull<gc::GcBox"):
                tests = pooled_tests(f)
                ok = any(f.dominates(tgt, bi) for tgt in tests)
                ck.instance("O7.pooled-roots", "%s push onto mark stack" % f.path, F.short_span(t[6]), ok=ok)
                if not ok:
                    ck.finding("O7.pooled-roots", "O7.pooled-roots/" + f.path, F.short_span(t[6]), "`%s` pushes a slot onto the mark stack without the pooled check" % f.path)
    # ---------------- O10 a slot leaves the pool freshly reset
    # A pooled slot can still be written through a handle that outlived its object (`Gc::borrow_mut` does not look at `pooled`).  Whatever was
    # written there must not become the contents - or the links, which the collector would trace - of the next object allocated in the slot:
    # every `pooled.set(false)` is dominated by a `Reset::reset` of the box's data.
    ck.rule("O10.unpooled-slots-are-reset", "every `pooled.set(false)` in gc.rs is dominated by a Reset::reset call in the same function (a reused slot starts from defaults)", floor=1)
    n10 = 0
    for f in gcf:
        if f.derived:
            continue
        resets = [bi for bi, t in f.calls() if (t[1].get("d") or "").endswith("Reset::reset") or (t[1].get("u") or "").endswith("Reset::reset")]
        for bi, t in f.calls():
            if not (t[1].get("d") or "").endswith("Cell::<T>::set") or len(t[2]) < 2 or t[2][0][0] not in ("c", "m") or M.const_int(t[2][1]) != 0:
                continue
            fl = E.field_of_ref(f, t[2][0][1][0])
            if not fl or fl[2] != "pooled":
                continue
            n10 += 1
            ok = any(f.dominates(rb, bi) for rb in resets)
            ck.instance("O10.unpooled-slots-are-reset", "%s: pooled.set(false)" % f.path, F.short_span(t[6]), ok=ok)
            if not ok:
                ck.finding("O10.unpooled-slots-are-reset", "O10.unpooled-slots-are-reset/" + f.path, F.short_span(t[6]),
                           "`%s` takes a slot out of the pool without resetting its contents: what a stale handle wrote into the pooled slot (a payload, a link that the "
                           "collector will trace) becomes the state of the next object allocated there" % f.path)
    ck.anchor(n10 >= 1, "sites that take a slot out of the pool (pooled.set(false)) in gc.rs (found %d)" % n10)
    # ---------------- O9 recycled root buffers are empty
    import poolclean
    ck.rule("O9.pool-buffers-empty", "a root buffer entering Space.guard_pool (push / insert / swap / replace) was cleared first; create_guard trusts pooled buffers", floor=1)
    ck.anchor(any(fl["name"] == "guard_pool" for v in fx.adts.get("gc::Space", {}).get("variants", []) for fl in v["fields"]), "field gc::Space.guard_pool")
    n9, _ = poolclean.rule(fx, ck, lambda g: g.file.endswith(GC), "guard_pool")
    cg = fx.fns.get("gc::Space::<T>::create_guard")
    if ck.anchor(cg is not None and any(t[1].get("d", "").endswith("GuardInner::<T>::with_storage") for _, t in cg.calls()), "Space::create_guard builds guards with_storage(pooled buffer)"):
        for p, g in sorted(fx.fns.items()):
            if g.derived:
                continue
            for bi, t in g.calls():
                if t[1].get("d", "").endswith("GuardInner::<T>::with_storage"):
                    ok = (g.parent if g.closure else g.path) == cg.path
                    ck.instance("O9.pool-buffers-empty", "%s calls GuardInner::with_storage" % g.path, F.short_span(t[6]), ok=ok)
                    if not ok:
                        ck.finding("O9.pool-buffers-empty", "O9.with-storage-caller/" + (g.parent if g.closure else g.path), F.short_span(t[6]),
                                   "`%s` builds a guard around a caller-chosen buffer: only Space::create_guard may, with a buffer popped from the (empty-buffer) pool" % g.path)
    ctl9 = F.load_fixture()
    nc, fc = poolclean.rule(ctl9, ck, lambda g: g.path.startswith("c13pool::"), "pool", emit=False)
    got9 = sorted(k.split("/", 1)[1] for k, _, _ in fc)
    if got9 != ["c13pool::Space::bad_return/push", "c13pool::Space::bad_swap/swap"]:
        ck.closed_fail.append("O9 control failed: fixture reports %s (want bad_return/push and bad_swap/swap only)" % got9)
    ck.note("O9 positive control: fixture bad_return and bad_swap reported; good_return, good_hoisted_clear and good_swap silent")
    ck.assume("internal Space methods run while the arena is alive (self is the Space)")
    import floorcount
    floorcount.rule(fx, ck)
    return ck.finish()


def rem_bound(fx, f, op, depth=0):
    """C when the operand is `_ % C` (C a constant), directly or as a component of the tuple a local helper returns
    (`let (chunk, index_in_chunk) = slot_position(i)` with `fn slot_position(i) -> (i / CAP, i % CAP)`)"""
    if op[0] not in ("c", "m") or depth > 4:
        return None
    local, proj = op[1][0], op[1][1]
    fields = [e for e in proj if isinstance(e, list) and e[0] == "f"]
    if not fields:
        d0 = M.trace_back(f, local)
        if not d0 or d0[1] == "T":
            return None
        rv = d0[2]
        if rv[0] == "bin" and rv[1] == "Rem":
            return c10.const_bound(fx, f, rv[3])
        if rv[0] == "use" and rv[1][0] in ("c", "m"):
            return rem_bound(fx, f, rv[1], depth + 1)
        return None
    # a component of a tuple: the tuple is the result of a local helper
    ds = f.defs().get(local, [])
    if len(ds) != 1 or ds[0][1] != "T" or len(fields) != 1:
        return None
    g = fx.fns.get(ds[0][2][1].get("d"))
    if g is None:
        return None
    idx = fields[0][1]
    bounds = []
    for bl in g.blocks:
        for s in bl["s"]:
            if s[0] == "a" and s[1][0] == 0 and not s[1][1] and s[2][0] == "agg" and isinstance(idx, int) and idx < len(s[2][2]):
                bounds.append(rem_bound(fx, g, s[2][2][idx], depth + 1))
    return max(bounds) if bounds and all(b is not None for b in bounds) else None


def pooled_tests(f):
    """targets of the `!pooled` edge of tests on GcBox.pooled"""
    out = []
    for bi, t in f.calls():
        if t[1].get("d", "").endswith("Cell::<T>::get") and t[2] and t[2][0][0] in ("c", "m"):
            fl = E.field_of_ref(f, t[2][0][1][0])
            if fl and fl[2] == "pooled" and t[4] >= 0:
                blk = f.blocks[t[4]]
                cur = t[3][0]
                neg = False
                for s in blk["s"]:
                    if s[0] == "a" and s[2][0] == "un" and s[2][1] == "Not" and s[2][2][0] in ("c", "m") and s[2][2][1][0] == cur:
                        cur = s[1][0]
                        neg = not neg
                sw = blk["t"]
                if sw[0] == "switch" and sw[1][0] in ("c", "m") and sw[1][1][0] == cur:
                    false_t = next((x for v, x in sw[2] if v == "0"), None)
                    true_t = sw[3]
                    if false_t is None:
                        continue
                    # not-pooled edge: pooled == false
                    out.append(true_t if neg else false_t)
    return out
