"""Type-level obligations: auto-trait facts from the trait solver (driver) and, in the thorough
tier, the compile_fail doc-test witnesses of /verif/witness (each with a compiling twin)."""
import os
import re
import shutil
import subprocess

import facts as F

WIT = os.path.join(F.VERIF, "witness")

NOT_THREADSAFE = {
    "c12": ["interpreter::Interpreter", "gc::Gc", "gc::Guard", "gc::Heap", "RuntimeValue", "value::JsValue",
            "value::Guarded", "value::JsObject", "ffi::TsRunContext", "ffi::TsRunValue"],
}


def run(ck, group, names, tier):
    fx = F.load("A")
    ck.rule("R5.auto-traits", "trait solver: the interpreter, heap handles and host-held values are neither Send nor Sync", floor=8)
    for p in NOT_THREADSAFE[group]:
        a = fx.adts.get(p)
        if not ck.anchor(a is not None, "type " + p):
            continue
        ok = not a["send"] and not a["sync"]
        ck.instance("R5.auto-traits", p, F.short_span(a["span"]), ok=ok)
        if not ok:
            ck.finding("R5.auto-traits", "R5.auto-traits/" + p, F.short_span(a["span"]),
                       "`%s` is %s: one instance could be driven from two threads, or share state across threads"
                       % (p, " and ".join(x for x, v in (("Send", a["send"]), ("Sync", a["sync"])) if v)))
    if tier != "thorough":
        ck.note("compile_fail witnesses (/verif/witness) run in the thorough tier only; quick uses the trait-solver facts")
        return
    doctests(ck, group)


def doctests(ck, group):
    ck.rule("R5.witness", "compile_fail,E0277 doc-tests with compiling twins (cargo +nightly test --doc)", floor=10)
    shutil.copy(os.path.join(F.REPO, "Cargo.lock"), os.path.join(WIT, "Cargo.lock"))
    env = dict(os.environ, CARGO_NET_OFFLINE="true", CARGO_TARGET_DIR=os.path.join(F.CACHE, "tgt-witness"), CARGO_INCREMENTAL="0")
    env.pop("RUSTC_WORKSPACE_WRAPPER", None)
    r = subprocess.run(["cargo", "+nightly", "test", "--doc", "--offline", "--", group.upper()], cwd=WIT, env=env,
                       stdout=subprocess.PIPE, stderr=subprocess.STDOUT, text=True)
    lines = re.findall(r"^test (src/lib\.rs - (\S+) \(line \d+\))( - compile fail)? \.\.\. (\w+)", r.stdout, re.M)
    if not lines:
        ck.closed_fail.append("witness doc-tests did not run: " + r.stdout[-600:])
        return
    for full, item, cf, verdict in lines:
        ident = "%s/%s" % (item, "compile_fail" if cf else "twin")
        ok = verdict == "ok"
        ck.instance("R5.witness", ident + "#" + re.search(r"line (\d+)", full).group(1), "witness/src/lib.rs", ok=ok)
        if not ok:
            if cf:
                ck.finding("R5.witness", "R5.witness/" + ident, "witness/src/lib.rs",
                           "witness `%s` compiled: the type has become Send/Sync" % full)
            else:
                ck.closed_fail.append("compiling twin `%s` no longer compiles: witnesses of this group prove nothing" % full)
