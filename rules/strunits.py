"""String positions have units (C01 R13).

tsrun stores strings as UTF-8 and counts script-visible positions in characters (`length` is `chars().count()`).  A `usize` in a string native
is therefore either a BYTE quantity (what `str::len`, `find`, `rfind`, `len_utf8`, `char_indices` produce and what `str::get(a..b)`,
`split_at`, `is_char_boundary` consume) or a CHARACTER quantity (what `chars().count()`, `Vec<char>::len`, and every number that comes from
or goes to the script are).  The two agree only on ASCII text, which is all the test-suite uses.  The rule is a units check (dimension
analysis) over value origins:
  U-out  no script number (`JsValue::Number`) is computed from a BYTE quantity;
  U-in   no byte-position API receives a CHARACTER quantity / script number;
  U-mix  no addition, subtraction or comparison has a BYTE quantity on one side and a CHARACTER quantity on the other;
  U-nth  no character-position API (`Chars::nth/skip/take`, an index into a `Vec<char>`) receives a BYTE quantity.
Origins are followed through copies, casts, arithmetic, Option/Result adapters (`unwrap_or`, `map`/`and_then` through the closure's return
value, `min`/`max`/`saturating_*`), `if let Some(x)` payloads and local helper functions (return-value summaries).
"""
import re

import facts as F
import mir as M
from c20 import leaves

BYTE = re.compile(r"(str::<impl str>::(len|find|rfind)|regex::Match<'_>::(start|end)|string::String::len|value::JsString::len|char::methods::<impl char>::len_utf8|Match::(start|end))$")
CHARCOUNT = re.compile(r"(Iterator>::count|Iterator::count)$")
SCRIPTNUM = re.compile(r"(JsValue::to_number|Interpreter::coerce_to_number|::to_integer_or_infinity|::to_length|::to_index|::to_uint32|::to_int32)$")
PASS1 = re.compile(r"(Option::<T>::(unwrap_or|unwrap_or_default|unwrap|expect|unwrap_or_else)|Result::<T, E>::(unwrap_or|unwrap_or_default|unwrap|expect)|"
                   r"::(min|max|clamp|saturating_sub|saturating_add|wrapping_sub|wrapping_add|checked_sub|checked_add|abs|unsigned_abs)|"
                   r"f64::(floor|ceil|trunc|round|min|max)|math::(floor|ceil|trunc|round)|Try>::branch|From<.*>>::from|Into<.*>>::into)$")
CLOSURE_ADAPT = re.compile(r"(Option::<T>::(map|and_then|map_or|map_or_else)|Result::<T, E>::(map|and_then))$")
BYTEPOS = re.compile(r"(platform::CompiledRegex::find|str::<impl str>::(get|get_mut|split_at|split_at_checked|is_char_boundary|get_unchecked)|string::String::(truncate|insert|insert_str|remove|split_off|drain|replace_range))$")
CHARPOS = re.compile(r"(Iterator>::(nth|skip|take)|Iterator::(nth|skip|take))$")
MIXOPS = {"Add", "Sub", "Lt", "Le", "Gt", "Ge", "Eq", "Ne", "AddWithOverflow", "SubWithOverflow"}


class Units:
    def __init__(self, fx):
        self.fx = fx
        self.ret_cache = {}
        self.by_span = {}
        for p, g in fx.fns.items():
            if g.closure:
                self.by_span[g.span.split("-")[0]] = g

    def closure_of(self, f, op):
        if op[0] not in ("c", "m"):
            return None
        ty = self.fx.tys(f.locals[op[1][0]])
        m = re.search(r"\{closure@([^ ]+):(\d+):(\d+): ", ty)
        if not m:
            return None
        return self.by_span.get("%s:%s:%s" % (m.group(1), m.group(2), m.group(3)))

    def ret_units(self, g, depth):
        key = g.path
        if key in self.ret_cache:
            return self.ret_cache[key]
        self.ret_cache[key] = set()
        if depth > 5:
            return set()
        u = self.units(g, ["c", [0, []]], depth + 1)
        self.ret_cache[key] = u
        return u

    def units(self, f, op, depth=0):
        """set of (unit, why): unit 'B' bytes, 'C' characters / script number"""
        out = set()
        if op[0] == "k" or depth > 6:
            return out
        for x in self._flat(leaves(f, op)):
            if x[0] == "call":
                out |= self._call_units(f, x[1], x[2], depth)
            elif x[0] == "field":
                adt = str(x[1])
                base = x[3]
                if adt.endswith("value::JsValue") and x[2] in ("0", "Number"):
                    out.add(("C", "a script number"))
                    continue
                if adt.endswith("RegexMatch") and x[2] in ("start", "end"):
                    out.add(("B", "RegexMatch.%s" % x[2]))
                    continue
                if adt.endswith(("Option", "Result", "ControlFlow")):
                    for bi, si, rv in f.defs().get(base, []):
                        if si == "T":
                            out |= self._call_units(f, rv[1].get("d") or "", bi, depth)
                        elif rv[0] == "use":
                            out |= self.units(f, rv[1], depth + 1)
        return out

    def _flat(self, lv, acc=None, d=0):
        acc = acc if acc is not None else []
        for x in lv:
            if x[0] == "bin" and d < 6:
                self._flat(x[2], acc, d + 1)
                self._flat(x[3], acc, d + 1)
            else:
                acc.append(x)
        return acc

    def _call_units(self, f, callee, blk, depth):
        t = f.blocks[blk]["t"]
        args = t[2] if t[0] == "call" else []
        if BYTE.search(callee):
            return {("B", callee.split("::")[-1] + "()")}
        if CHARCOUNT.search(callee) and args and args[0][0] in ("c", "m") and "Chars" in self.fx.tys(f.locals[args[0][1][0]]):
            return {("C", "chars().count()")}
        if callee.endswith(("Vec::<T, A>::len", "slice::<impl [T]>::len")) and args and args[0][0] in ("c", "m") and \
                re.search(r"(Vec<char|\[char\])", self.fx.tys(f.locals[args[0][1][0]])):
            return {("C", "Vec<char>::len()")}
        if SCRIPTNUM.search(callee):
            return {("C", "a script number")}
        if PASS1.search(callee):
            out = set()
            for a in args[:2]:
                out |= self.units(f, a, depth + 1)
            return out
        if CLOSURE_ADAPT.search(callee):
            out = set()
            for a in args:
                g = self.closure_of(f, a)
                if g is not None:
                    out |= self.ret_units(g, depth)
                elif callee.endswith(("map_or", "map_or_else")) and a is args[1]:
                    out |= self.units(f, a, depth + 1)
            return out
        g = self.fx.fns.get(callee)
        if g is not None and t[0] == "call" and t[1].get("local") and self.fx.tys(g.sig[-1]) in ("usize", "isize", "i64", "u32", "i32", "f64", "std::option::Option<usize>") if g is not None and g.sig else False:
            return self.ret_units(g, depth)
        return set()


def param_expectations(fx, U, scope):
    """{fn path: {param index (1-based): 'B'|'C'}}: a usize parameter that the function itself hands to a byte-position API expects bytes,
    one it hands to a character-position API expects characters"""
    out = {}
    for p, g in fx.fns.items():
        if g.derived or g.closure or not scope(g):
            continue
        for bi, t in g.calls():
            d = t[1].get("d") or ""
            want = None
            if BYTEPOS.search(d) and len(t[2]) >= 2:
                want = "B"
                pos = t[2][2] if d.endswith("CompiledRegex::find") and len(t[2]) >= 3 else t[2][1]
                ops = [pos]
                if pos[0] in ("c", "m") and "Range" in fx.tys(g.locals[pos[1][0]]):
                    ops = []
                    for db, si, rv in g.defs().get(pos[1][0], []):
                        if si != "T" and rv[0] == "agg":
                            ops += rv[2]
            elif CHARPOS.search(d) and len(t[2]) >= 2 and t[2][0][0] in ("c", "m") and re.search(r"Chars|CharIndices", fx.tys(g.locals[t[2][0][1][0]])):
                want = "C"
                ops = [t[2][1]]
            if not want:
                continue
            for o in ops:
                for x in U._flat(leaves(g, o)):
                    if x[0] == "param" and fx.tys(g.locals[x[1]]) in ("usize", "isize"):
                        out.setdefault(p, {})[x[1]] = want
    return out


def kinds(us):
    return {u for u, _ in us}


def why(us, unit):
    return sorted(w for u, w in us if u == unit)[0]


def sites(fx, scope):
    """(fn, kind, span, message)"""
    U = Units(fx)
    out = []
    stats = {"out": 0, "in": 0, "mix": 0, "nth": 0, "helpers": 0}
    expect = param_expectations(fx, U, scope)
    stats["helpers"] = len(expect)
    for p, f in sorted(fx.fns.items()):
        if f.derived or not scope(f):
            continue
        top = f.parent if f.closure else f.path
        for l, ds in sorted(f.defs().items()):
            if len(ds) < 2 or fx.tys(f.locals[l]) not in ("usize", "isize", "i64", "i32", "u32", "f64"):
                continue
            per = []
            for bi, si, rv in ds:
                if si == "T":
                    per.append((U._call_units(f, rv[1].get("d") or "", bi, 0), f.blocks[bi]["t"][6]))
                elif rv[0] in ("use", "cast"):
                    per.append((U.units(f, rv[1] if rv[0] == "use" else rv[2]), None))
            bs = [x for x in per if kinds(x[0]) == {"B"}]
            cs = [x for x in per if kinds(x[0]) == {"C"}]
            if bs and cs:
                sp = next((x[1] for x in bs + cs if x[1]), None) or f.span
                out.append((f, top, "U-mix", sp, "one variable holds a byte quantity (%s) on one path and a character quantity (%s) on another" % (
                    why(bs[0][0], "B"), why(cs[0][0], "C"))))
        for bi, bl in enumerate(f.blocks):
            for s in bl["s"]:
                if s[0] != "a":
                    continue
                rv = s[2]
                if rv[0] == "agg" and rv[1].get("v") == "Number" and str(rv[1].get("p", "")).endswith("JsValue") and rv[2]:
                    us = U.units(f, rv[2][0])
                    if us:
                        stats["out"] += 1
                    if "B" in kinds(us) and "C" not in kinds(us):
                        out.append((f, top, "U-out", s[3], "a script number is computed from a byte quantity (%s): positions the script sees count characters" % why(us, "B")))
                elif rv[0] == "bin" and rv[1] in MIXOPS and fx.tys(rv[4]) in ("usize", "isize", "i64", "i32", "u32", "f64", "bool"):
                    a = kinds(U.units(f, rv[2]))
                    b = kinds(U.units(f, rv[3]))
                    if a and b:
                        stats["mix"] += 1
                    if (a == {"B"} and b == {"C"}) or (a == {"C"} and b == {"B"}):
                        ua, ub = U.units(f, rv[2]), U.units(f, rv[3])
                        out.append((f, top, "U-mix", s[3], "`%s` combines a byte quantity (%s) with a character quantity (%s)" % (
                            rv[1].replace("WithOverflow", ""), why(ua | ub, "B"), why(ua | ub, "C"))))
            t = bl["t"]
            if t[0] != "call":
                continue
            d = t[1].get("d") or ""
            if re.search(r"(::(min|max|clamp)|Option::<T>::unwrap_or)$", d) and len(t[2]) >= 2:
                ua, ub = U.units(f, t[2][0]), U.units(f, t[2][1])
                a, b = kinds(ua), kinds(ub)
                if (a == {"B"} and b == {"C"}) or (a == {"C"} and b == {"B"}):
                    out.append((f, top, "U-mix", t[6], "`%s` combines a byte quantity (%s) with a character quantity (%s)" % (
                        d.split("::")[-1], why(ua | ub, "B"), why(ua | ub, "C"))))
            if BYTEPOS.search(d) and len(t[2]) >= 2:
                pos = t[2][2] if d.endswith("CompiledRegex::find") and len(t[2]) >= 3 else t[2][1]
                ops = [pos]
                if pos[0] in ("c", "m") and "Range" in fx.tys(f.locals[pos[1][0]]):
                    ops = []
                    for db, si, rv in f.defs().get(pos[1][0], []):
                        if si != "T" and rv[0] == "agg":
                            ops += rv[2]
                for o in ops:
                    us = U.units(f, o)
                    if us:
                        stats["in"] += 1
                    if "C" in kinds(us) and "B" not in kinds(us):
                        out.append((f, top, "U-in", t[6], "`%s` receives a character quantity (%s) as a byte position" % (d.split("::")[-1], why(us, "C"))))
                        break
            elif CHARPOS.search(d) and len(t[2]) >= 2 and t[2][0][0] in ("c", "m") and re.search(r"Chars|CharIndices", fx.tys(f.locals[t[2][0][1][0]])):
                stats["nth"] += 1
                us = U.units(f, t[2][1])
                if "B" in kinds(us):
                    out.append((f, top, "U-nth", t[6], "`chars().%s` receives a byte quantity (%s) as a character position" % (d.split("::")[-1], why(us, "B"))))
            g = expect.get(d)
            if g and t[1].get("local"):
                for i, want in g.items():
                    if i - 1 < len(t[2]):
                        us = U.units(f, t[2][i - 1])
                        if us:
                            stats["in" if want == "B" else "nth"] += 1
                        if kinds(us) == ({"C"} if want == "B" else {"B"}):
                            out.append((f, top, "U-in" if want == "B" else "U-nth", t[6], "`%s` takes a %s position and receives a %s quantity (%s)" % (
                                d.split("::")[-1], "byte" if want == "B" else "character", "character" if want == "B" else "byte", why(us, "C" if want == "B" else "B"))))
    return out, stats
