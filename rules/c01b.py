"""C01 - four more structural clauses of "programs evaluate as ECMAScript specifies", each found as a defect of the pinned tree.

  R9  switch: the default clause is the last resort.  In the loop that emits the case tests (`Op::StrictEq` against the discriminant) no
      unconditional jump is emitted that the same loop does not patch: a jump emitted in place among the tests makes the tests written
      after it unreachable (`switch (2) { case 1: ..; default: ..; case 2: .. }` ran the default clause).
  R10 for (let ...): the registers that seed the next iteration's bindings are refreshed from the body's scope on every path from the body to
      the back jump (must-pass-through a `GetVar`-emitting loop); refreshed only on one branch, what the body assigned to the loop variable is lost.
  R11 operand addressing: every register the VM reads or writes while executing an instruction is an operand of the instruction, or an operand
      plus an offset (argument windows); a register *below* an operand (`dst - 3`) is a guess about the compiler's allocation order.
  R12 stable sort: script values are never ordered with an unstable sort (`sort_unstable*`, `select_nth_unstable*`): Array.prototype.sort
      must keep equal elements in input order, and Rust's unstable sort only happens to on short slices.
"""
import re

import facts as F
import mir as M
import loops as L
from c20 import leaves

UNSTABLE = re.compile(r"::(sort_unstable|sort_unstable_by|sort_unstable_by_key|select_nth_unstable|select_nth_unstable_by|select_nth_unstable_by_key)$")


def op_aggs(f, op_path, variant):
    """blocks in which `f` builds Op::<variant>"""
    out = []
    for bi, bl in enumerate(f.blocks):
        for s in bl["s"]:
            if s[0] == "a" and s[2][0] == "agg" and s[2][1].get("p") == op_path and s[2][1].get("v") == variant:
                out.append((bi, s[3]))
    return out


def emitters(fx, scope, op_path, variant):
    """local functions that build Op::<variant> themselves (helpers one call away)"""
    # a function that takes a piece of the AST is a compiler of that construct, not an emission helper: `compile_expression` builds
    # every opcode there is
    def takes_ast(g):
        return any("ast::" in fx.tys(t) for t in g.sig[:-1])
    return {p for p, g in fx.fns.items() if not g.derived and not g.closure and scope(g) and not takes_ast(g) and op_aggs(g, op_path, variant)}


def op_sites(fx, f, scope, op_path, variant, helpers):
    """blocks of `f` that build Op::<variant> or call a helper that does"""
    out = list(op_aggs(f, op_path, variant))
    for bi, t in f.calls():
        if t[1].get("local") and t[1].get("d") in helpers and t[1].get("d") != f.path:
            out.append((bi, t[6]))
    return out


def reads_adt(f, adt_suffix):
    for bi2, kind, place, sp in M.all_places(f):
        for (adt, var, name) in F.place_fields(place):
            if str(adt).endswith(adt_suffix):
                return True
    return False


def switch_rule(fx, scope, op_path, jump_suffix="::emit_jump", patch_suffix="::patch_jump", case_adt=None):
    """[(fn, header, span, bad_jump_spans)] one per loop that emits case tests"""
    out = []
    helpers = emitters(fx, scope, op_path, "StrictEq")
    for p, f in sorted(fx.fns.items()):
        if f.derived or f.closure or not scope(f):
            continue
        tests = op_sites(fx, f, scope, op_path, "StrictEq", helpers)
        if not tests or (case_adt and not reads_adt(f, case_adt)):
            continue
        for header, body in L.natural_loops(f):
            if not any(b in body for b, _ in tests):
                continue
            # innermost loop only: skip a loop that strictly contains another test loop
            jumps = [(bi, t[6]) for bi, t in f.calls() if bi in body and (t[1].get("d") or "").endswith(jump_suffix)]
            patches = [bi for bi, t in f.calls() if bi in body and (t[1].get("d") or "").endswith(patch_suffix)]
            bad = [sp for bi, sp in jumps] if not patches else []
            out.append((f, header, next(sp for b, sp in tests if b in body), bad))
    return out


def perit_rule(fx, scope, op_path, marker="::set_loop_var_redirects", body_suffix="::compile_statement_impl", back_suffix="::emit_jump_to"):
    """[(fn, ok, span)] for every compiler of a loop with per-iteration bindings (recognised by the marker call)"""
    out = []
    getvar_helpers = emitters(fx, scope, op_path, "GetVar")
    for p, f in sorted(fx.fns.items()):
        if f.derived or f.closure or not scope(f):
            continue
        calls = list(f.calls())
        gets = {b for b, _ in op_aggs(f, op_path, "GetVar")}
        decls = {b for b, _ in op_aggs(f, op_path, "DeclareVar")}
        loops_ = L.natural_loops(f)
        # a compiler of per-iteration bindings: it redirects the update's writes (the marker), or it carries the variables from scope to scope -
        # one loop over them emits GetVar, another DeclareVar
        carries = any(gets & body for _, body in loops_) and any(decls & body for _, body in loops_)
        if not any((t[1].get("d") or "").endswith(marker) for _, t in calls) and not carries:
            continue
        bodies = [(bi, t) for bi, t in calls if (t[1].get("d") or "").endswith(body_suffix)]
        backs = [bi for bi, t in calls if (t[1].get("d") or "").endswith(back_suffix)]
        if not bodies or not backs:
            if carries and not any((t[1].get("d") or "").endswith(marker) for _, t in calls):
                continue
        helper_calls = {b for b, _ in op_sites(fx, f, scope, op_path, "GetVar", getvar_helpers)} - gets
        # a refresh is a loop over the registers that emits GetVar: its header is the waypoint (the loop may run zero times)
        way = set(helper_calls)      # a helper that emits the refreshing GetVars (it may loop inside)
        for header, body in L.natural_loops(f):
            if (gets | helper_calls) & body:
                way.add(header)
        if not bodies or not backs:
            out.append((f, False, f.span, "no body / back jump found"))
            continue
        for bb, t in bodies:
            start = t[4]
            if start is None or start < 0:
                continue
            seen = set()
            work = [start]
            leak = False
            while work:
                b = work.pop()
                if b in seen or b in way:
                    continue
                seen.add(b)
                if b in backs:
                    leak = True
                    break
                for s in f.succ(b):
                    work.append(s)
            out.append((f, not leak, t[6], "a path from the body to the back jump refreshes no register from the scope" if leak else ""))
        # `continue` is a way out of the body too: the target that continues jump to must be emitted before the refresh, i.e. the call that fixes the
        # continue target is not reachable from the refresh
        # CreatePerIterationEnvironment comes before the update: behind the body, no expression is compiled before the loop that declares the
        # variables afresh (an update compiled in the old scope changes what the body's closures see, and one whose writes are redirected to
        # registers reads stale values: `for (let a = 1, b = 2; a < 20; [a, b] = [b, a + b])` never ends)
        fresh = set()
        after_all = set()
        for bb, t in bodies:
            if t[4] is not None and t[4] >= 0:
                after_all |= f.reachable_from(t[4])
        for header, body in loops_:
            if decls & body and header in after_all:
                fresh.add(header)
        for bb, t in bodies:
            start = t[4]
            if start is None or start < 0:
                continue
            seen, work, early = set(), [start], None
            while work:
                b = work.pop()
                if b in seen or b in fresh:
                    continue
                seen.add(b)
                tb = f.blocks[b]["t"]
                if tb[0] == "call" and (tb[1].get("d") or "").endswith("::compile_expression"):
                    early = tb[6]
                    break
                for s_ in f.succ(b):
                    work.append(s_)
            out.append((f, early is None, t[6], "the update clause is compiled before the next iteration's bindings are declared" if early else ""))
        conts = [(bi, t) for bi, t in calls if (t[1].get("d") or "").endswith("::set_continue_target")]
        for cb, ct in conts:
            after_body = set()
            for bb, t in bodies:
                if t[4] is not None and t[4] >= 0:
                    after_body |= f.reachable_from(t[4])
            late = any(cb in f.reachable_from(w) for w in way & after_body)
            out.append((f, not late, ct[6], "the continue target is fixed after the registers were refreshed: a `continue` skips the refresh" if late else ""))
    return out


def release_loops(fx, scope):
    """[(fn, span, ok)] loops that only release registers; ok when they walk backwards"""
    out = []
    for p27, f27 in sorted(fx.fns.items()):
        if f27.derived or not scope(f27):
            continue
        for hd27, body27 in L.natural_loops(f27):
            cs27 = [(bi, t) for bi, t in f27.calls() if bi in body27]
            frees27 = [t for _, t in cs27 if (t[1].get("d") or "").endswith("::free_register")]
            if not frees27 or any((t[1].get("d") or "").endswith(("::alloc_register", "::reserve_registers", "::reserve_register_window")) for _, t in cs27):
                continue
            nx27 = [(t[1].get("d") or "") for _, t in cs27 if (t[1].get("u") or "").endswith("Iterator::next")]
            pops27 = any((t[1].get("d") or "").endswith("::pop") for _, t in cs27)
            if not nx27 and not pops27:
                continue
            out.append((f27, frees27[0][6], pops27 or all("::Rev<" in d for d in nx27)))
    return out


def operand_rule(fx, scope, reg_fns=("::get_reg", "::set_reg")):
    """[(fn, span, ok, why)] for every register access of the VM"""
    out = []
    for p, f in sorted(fx.fns.items()):
        if f.derived or not scope(f):
            continue
        for bi, t in f.calls():
            d = t[1].get("d") or ""
            if not d.endswith(reg_fns) or len(t[2]) < 2:
                continue
            lv = leaves(f, t[2][1])
            why = below(lv)
            out.append((f, t[6], why is None, why))
    return out


def below(lv, depth=0):
    """reason if some origin of the register index subtracts from another register / operand"""
    for x in lv:
        if x[0] == "call" and re.search(r"::(saturating_sub|wrapping_sub|checked_sub)$", x[1]):
            return "`%s`" % x[1].split("::")[-1]
        if x[0] == "bin":
            if x[1] == "Sub":
                return "a subtraction"
            if depth < 4:
                w = below(x[2], depth + 1) or below(x[3], depth + 1)
                if w:
                    return w
    return None


def unstable_rule(fx, scope, value_marks=("value::JsValue", "gc::Gc<")):
    out = []
    for p, f in sorted(fx.fns.items()):
        if f.derived or not scope(f):
            continue
        for bi, t in f.calls():
            d = t[1].get("d") or ""
            m = UNSTABLE.search(d)
            if not m:
                continue
            targs = " ".join(fx.tys(x) for x in t[1].get("targs", []))
            a0 = fx.tys(f.locals[t[2][0][1][0]]) if t[2] and t[2][0][0] in ("c", "m") else ""
            if any(k in targs or k in a0 for k in value_marks):
                out.append((f, t[6], m.group(1)))
    return out


STATIC_EMITTERS = ("::compile_static_field_initializer", "::compile_static_private_field_initializer", "::compile_static_block")


def static_order_rule(fx, scope, op_path, emitters=STATIC_EMITTERS, private_method="::compile_private_method"):
    """[(fn, kind, ok, span, why)] for the function that compiles a class body.  The three emitters may be called directly, or through one
    dispatcher (a helper or a closure handed to `try_for_each`) that calls all of them for one element."""
    out = []

    def calls_of(g):
        return [(bi, t) for bi, t in g.calls()]

    def kinds_called(g):
        return {e for e in emitters for _, t in calls_of(g) if (t[1].get("d") or "").endswith(e)}
    # dispatchers: bodies (functions or closures) that call all three emitters themselves
    disp = {p: g for p, g in fx.fns.items() if not g.derived and scope(g) and kinds_called(g) == set(emitters)}
    # helpers that contain such a closure count as dispatchers too (`elements.iter().try_for_each(|e| match e {..})`)
    for p, g in list(disp.items()):
        if g.closure:
            disp.setdefault(g.parent, fx.fns[g.parent])
    for p, f in sorted(fx.fns.items()):
        if f.derived or f.closure or not scope(f):
            continue
        binds = [bi for bi, sp in op_aggs(f, op_path, "DeclareVar")]
        pms = [bi for bi, t in f.calls() if (t[1].get("d") or "").endswith(private_method)]
        if not binds or not pms:
            continue
        sites = [bi for bi, t in f.calls() if (t[1].get("d") or "").endswith(tuple(emitters)) or (t[1].get("d") in disp and t[1].get("d") != p)]
        if not sites:
            continue
        span = f.blocks[sites[0]]["t"][6]
        late = [b for b in binds if any(b in f.reachable_from(s) for s in sites)]
        out.append((f, "binding-first", not late, span,
                    "a static initialiser or static block is emitted before the class name is declared: `class S { static x = 1; static r = S.x }` throws "
                    "`S is not defined` (and `static inst = new S()`)"))
        latep = [b for b in pms if any(b in f.reachable_from(s) for s in sites)]
        out.append((f, "private-methods-first", not latep, span,
                    "private methods are defined after static elements have run: a static block or initialiser that calls `S.#m()` fails"))
        # source order: one body handles all three kinds, in one loop or per element (no loop of its own around the calls)
        shared = False
        for q, g in disp.items():
            if q != p and not any(t[1].get("d") == q or (g.closure and g.parent == p) or (fx.fns.get(t[1].get("d") or "") is not None and q.startswith((t[1].get("d") or "") + "::"))
                                  for _, t in f.calls()):
                continue
            per_kind = {e: [bi for bi, t in g.calls() if (t[1].get("d") or "").endswith(e)] for e in emitters}
            loops = L.natural_loops(g)
            in_one = any(all(any(b in body for b in per_kind[e]) for e in emitters) for h, body in loops)
            in_none = not any(b in body for e in emitters for b in per_kind[e] for h, body in loops)
            if all(per_kind.values()) and (in_one or (in_none and q != p)):
                shared = True
        out.append((f, "source-order", shared, span,
                    "static fields, static private fields and static blocks are emitted by separate passes: `static #c = 1; static { S.#c }` runs the block "
                    "before the field exists"))
    return out


def parse_drop_rule(fx, scope, parsers=("::parse_assignment_expression", "::parse_expression")):
    """[(fn, callee, span, used)] for every call of an expression parser"""
    out = []
    for p, f in sorted(fx.fns.items()):
        if f.derived or not scope(f):
            continue
        for bi, t in f.calls():
            d = t[1].get("d") or ""
            if not d.endswith(parsers) or t[3][1]:
                continue
            holders = {t[3][0]}
            ch = True
            while ch:
                ch = False
                for b2, t2 in f.calls():
                    if "ops::Try" in (t2[1].get("d") or "") and t2[2] and t2[2][0][0] in ("c", "m") and t2[2][0][1][0] in holders and not t2[3][1] and t2[3][0] not in holders:
                        holders.add(t2[3][0]); ch = True
                for bl in f.blocks:
                    for st in bl["s"]:
                        if st[0] == "a" and not st[1][1] and st[1][0] not in holders and st[2][0] == "use" and st[2][1][0] in ("c", "m") and st[2][1][1][0] in holders:
                            holders.add(st[1][0]); ch = True
            used = False
            for bl in f.blocks:
                for st in bl["s"]:
                    if st[0] == "a" and st[2][0] != "disc" and (st[1][0] not in holders or st[1][0] == 0) and any(pl[0] in holders for pl in F.rvalue_places(st[2])):
                        used = True
                tt = bl["t"]
                if tt[0] == "call" and "ops::Try" not in (tt[1].get("d") or "") and "FromResidual" not in (tt[1].get("d") or "") and \
                        any(a[0] in ("c", "m") and a[1][0] in holders for a in tt[2]):
                    used = True
            out.append((f, d.split("::")[-1], t[6], used))
    return out


def param_sibling_rule(fx, scope, op_path, pattern_adt="ast::Pattern", info_adt="FunctionInfo"):
    """[(fn, kind, ok, span, why)]"""
    out = []
    # helpers that bind one name (`declare_simple_param(id, reg, ..)`): they emit the DeclareVar (or hand a pattern to the pattern binder)
    # themselves and are not compilers of statements or expressions
    binders = set()
    for p, g in fx.fns.items():
        if g.derived or g.closure or not scope(g) or any(("ast::Statement" in fx.tys(t) or "ast::Expression" in fx.tys(t)) for t in g.sig[:-1]):
            continue
        if op_aggs(g, op_path, "DeclareVar") or any((t[1].get("d") or "").endswith("::compile_pattern_binding") for _, t in g.calls()):
            binders.add(p)
    for p, f in sorted(fx.fns.items()):
        if f.derived or f.closure or not scope(f):
            continue
        infos = [(bi, s) for bi, bl in enumerate(f.blocks) for s in bl["s"]
                 if s[0] == "a" and s[2][0] == "agg" and isinstance(s[2][1], dict) and str(s[2][1].get("p", "")).endswith(info_adt) and "rest_param" in (s[2][1].get("fields") or [])]
        sws = [sw for sw in M.enum_switches(fx, f) if str(sw[1]).endswith(pattern_adt) and len(sw[3]) >= 3]
        if not infos or not sws:
            continue
        # the switch over the parameters: the one inside a loop with the most arms
        loops = L.natural_loops(f)
        sws = [sw for sw in sws if any(sw[0] in body for h, body in loops)]
        if not sws:
            continue
        sw = max(sws, key=lambda x: len(x[3]))
        binds = {bi for bi, sp in op_aggs(f, op_path, "DeclareVar")} | {bi for bi, t in f.calls() if (t[1].get("d") or "").endswith("::compile_pattern_binding")}
        binds |= {bi for bi, t in f.calls() if t[1].get("d") in binders}
        for var, tgt in sorted(sw[3].items()):
            region = M.dominated_region(f, tgt) if all(q == sw[0] for q in f.preds()[tgt]) else {tgt}
            ok = bool(binds & region)
            out.append((f, "binds Pattern::%s parameters" % var, ok, f.blocks[tgt]["t"][-1] if isinstance(f.blocks[tgt]["t"][-1], str) else f.span,
                        "a `Pattern::%s` parameter is given no binding: `((a = 5) => a)()` throws `a is not defined`" % var))
        if "Rest" in sw[3]:
            for bi, s in infos:
                fields = s[2][1]["fields"]
                o = s[2][2][fields.index("rest_param")]
                const_none = False
                if o[0] == "k":
                    const_none = True
                elif o[0] in ("c", "m"):
                    ds = f.defs().get(o[1][0], [])
                    const_none = bool(ds) and all(si != "T" and rv[0] == "agg" and isinstance(rv[1], dict) and rv[1].get("v") == "None" for _, si, rv in ds)
                out.append((f, "records the rest parameter", not const_none, s[3],
                            "the FunctionInfo is built with `rest_param: None` although the parameter list may end in `...rest`: the call never packs the remaining "
                            "arguments (`class A { constructor(...r) {} }` gets `r` undefined)"))
    return out


def pool_identity_rule(fx, scope, key_ty="value::JsString"):
    """[(fn, ok, span)] for functions that look a string up in a map keyed by its text and return what they found"""
    from c09 import ancestors
    out = []
    for p, f in sorted(fx.fns.items()):
        if f.derived or f.closure or not scope(f):
            continue
        gets = [(bi, t) for bi, t in f.calls() if (t[1].get("d") or "").endswith("::get") and "HashMap" in (t[1].get("d") or "")
                and t[1].get("targs") and key_ty in fx.tys(t[1]["targs"][0])]
        if not gets:
            continue
        found = set()
        for bi, t in gets:
            found.add(t[3][0])
        # "what if the identity test says no": the found slot must then be unreachable (the test may sit in an `&&` chain or be kept in a flag)
        # ... directly, or in a boolean helper (`holds_same_string(idx, &s)`)
        ident_helpers = {q for q, g in fx.fns.items() if not g.derived and g.sig and fx.tys(g.sig[-1]) == "bool"
                         and any((t2[1].get("d") or "").endswith("::ptr_eq") for _, t2 in g.calls())}
        ident = {bi: 0 for bi, t in f.calls() if (t[1].get("d") or "").endswith("::ptr_eq") or t[1].get("d") in ident_helpers}
        differ = M.reach_bool_sensitive(fx, f, [0], assume=ident)
        # returns of the found value: `_0 = Ok(idx)` with idx derived from the lookup
        rets = [(bi, s) for bi, bl in enumerate(f.blocks) for s in bl["s"]
                if s[0] == "a" and s[1][0] == 0 and not s[1][1] and s[2][0] == "agg" and s[2][2] and s[2][2][0][0] in ("c", "m")
                and ancestors(f, s[2][2][0][1][0]) & found]
        for bi, s in rets:
            out.append((f, bool(ident) and bi not in differ, s[3]))
    return out


def regexp_rule(fx, scope, matcher=None):
    out = []
    for p, f in sorted(fx.fns.items()):
        if f.derived or f.closure or not scope(f):
            continue
        hits = [t for bi, t in f.calls() if (((t[1].get("d") or "") == matcher) if matcher else re.search(r"platform::CompiledRegex::(is_match|find|find_iter)$", t[1].get("d") or ""))]
        if not hits:
            continue
        uses = False
        for bl in f.blocks:
            t = bl["t"]
            if t[0] == "call":
                for a in t[2]:
                    if M.const_str(a) == "lastIndex":
                        uses = True
            for st in bl["s"]:
                if st[0] == "a" and st[2][0] == "use" and M.const_str(st[2][1]) == "lastIndex":
                    uses = True
        out.append((f, uses, hits[0][6]))
    return out


ORDER_EDIT = re.compile(r"(^|::)indexmap::(map::|set::)?Index(Map|Set)::<[^>]*>::(\w+)$")
ORDER_BREAKING = re.compile(r"^(swap_remove\w*|swap_take|remove|remove_entry|remove_full|take|swap_indices|move_index|reverse|sort_unstable\w*|swap_remove_index)$")
ORDER_KEEPING = re.compile(r"^(shift_remove\w*|shift_take|shift_insert|retain|pop|truncate|clear|drain|split_off|insert\w*|entry)$")


def ordered_edit_rule(fx, scope, pat=ORDER_EDIT):
    """[(fn, span, api, ok)] edits of IndexMap / IndexSet"""
    out = []
    for p, f in sorted(fx.fns.items()):
        if f.derived or not scope(f):
            continue
        for bi, t in f.calls():
            m = pat.search(t[1].get("d") or "")
            if not m:
                continue
            name = m.group(4)
            if ORDER_BREAKING.match(name):
                out.append((f, t[6], name, False))
            elif ORDER_KEEPING.match(name):
                out.append((f, t[6], name, True))
    return out


def discard_rule(fx, scope, op_path, comp_adt="compiler::Compiler"):
    """[(fn, what, span, ok, why)]: a `break` / `continue` that leaves a finally block replaces the completion the block was entered with.
    The parked completion lives in one slot of the frame and `FinallyEnd` takes up whatever is there, so the jump has to empty the slot:
    every function that emits Op::Break / Op::Continue calls, on the way to the emission, a function that can emit Op::DiscardCompletion, and
    that decision reads a field of the compiler that the compiler of `finally` blocks (the emitter of Op::FinallyEnd) writes."""
    out = []
    disc = {p for p, g in fx.fns.items() if not g.derived and scope(g) and op_aggs(g, op_path, "DiscardCompletion")}
    reads = set()
    for p in disc:
        g = fx.fns[p]
        for bi, kind, pl, sp in M.all_places(g):
            if kind in ("r", "b"):
                for a_, v_, n_ in F.place_fields(pl):
                    if a_ == comp_adt:
                        reads.add(n_)
    for p, f in sorted(fx.fns.items()):
        if f.derived or f.closure or not scope(f):
            continue
        for variant in ("Break", "Continue"):
            for bi, sp in op_aggs(f, op_path, variant):
                calls = [b2 for b2, t in f.calls() if t[1].get("d") in disc]
                ok = p in disc or any(f.dominates(b2, bi) for b2 in calls)
                out.append((f, "emits Op::%s" % variant, sp, ok,
                            "emits Op::%s without a preceding decision to emit Op::DiscardCompletion" % variant))
        fe = op_aggs(f, op_path, "FinallyEnd")
        if fe:
            writes = set()
            for bl in f.blocks:
                for s_ in bl["s"]:
                    if s_[0] == "a":
                        for a_, v_, n_ in F.place_fields(s_[1]):
                            if a_ == comp_adt:
                                writes.add(n_)
            ok = bool(reads & writes)
            out.append((f, "compiles finally blocks", fe[0][1], ok,
                        "emits Op::FinallyEnd but writes none of the compiler fields the discard decision reads (%s): a jump cannot tell that it leaves a finally block" % (sorted(reads) or "none")))
    return out


def run(fx, ck, OP):
    comp = lambda g: g.file.startswith("src/compiler")
    ck.rule("R9.switch-default-last", "the loop emitting a switch's case tests emits no unconditional jump it does not patch itself (the default clause is reached only after every test failed)", floor=1)
    for f, header, sp, bad in switch_rule(fx, comp, OP, case_adt="ast::SwitchCase"):
        ck.instance("R9.switch-default-last", "%s: case-test loop" % f.path, F.short_span(sp), ok=not bad)
        for b in bad:
            ck.finding("R9.switch-default-last", "R9.switch-default-last/%s" % f.path, F.short_span(b),
                       "`%s` emits an unconditional jump among the case tests: the tests of the clauses written after it are never evaluated, so "
                       "`switch (2) { case 1: ..; default: ..; case 2: .. }` runs the default clause" % f.path)
    ck.rule("R10.iteration-copy-back", "for (let ..): every path from the loop body to the back jump refreshes the registers that seed the next iteration from the body's scope", floor=1)
    for f, ok, sp, why in perit_rule(fx, comp, OP):
        ck.instance("R10.iteration-copy-back", f.path, F.short_span(sp), ok=ok)
        if not ok:
            ck.finding("R10.iteration-copy-back", "R10.iteration-copy-back/%s" % f.path, F.short_span(sp),
                       "`%s`: %s - what the body assigned to a `let` loop variable is lost when the next iteration's binding is created "
                       "(`for (let i = 0; i < 6; i++) { if (i %% 2 == 0) i++; .. }` visits 1,1,3,3,5,5)" % (f.path, why))
    ck.rule("R11.operand-addressing", "every register the VM accesses is an operand of the instruction or an operand plus an offset, never a register below one", floor=200)
    for f, sp, ok, why in operand_rule(fx, lambda g: g.file.endswith("interpreter/bytecode_vm.rs")):
        ck.instance("R11.operand-addressing", f.path, F.short_span(sp), ok=ok, nontrivial=False) if ok else ck.instance("R11.operand-addressing", f.path, F.short_span(sp), ok=False)
        if not ok:
            ck.finding("R11.operand-addressing", "R11.operand-addressing/%s" % (f.parent if f.closure else f.path), F.short_span(sp),
                       "`%s` computes a register number with %s: the instruction reaches for a register that is not among its operands, which holds "
                       "what it expects only for one register-allocation order (`[x, ...y] = f()` gave an empty rest array)" % (f.path, why))
    ck.rule("R12.stable-sort", "script values are never ordered with an unstable sort", floor=0)
    scope_all = lambda g: g.file.startswith(("src/interpreter", "src/value.rs", "src/compiler"))
    for f, sp, api in unstable_rule(fx, scope_all):
        ck.instance("R12.stable-sort", "%s: %s" % (f.path, api), F.short_span(sp), ok=False)
        ck.finding("R12.stable-sort", "R12.stable-sort/%s/%s" % (f.parent if f.closure else f.path, api), F.short_span(sp),
                   "`%s` orders script values with `%s`: equal elements may change places (Array.prototype.sort is stable; Rust's unstable sort "
                   "keeps the order only for short slices)" % (f.path, api))
    for g in fx.fns.values():
        if not g.derived and g.file.endswith("builtins/array.rs"):
            ck.instance("R12.stable-sort", g.path, None, nontrivial=False)
    # ---- R21 Map / Set keep insertion order: an insertion-ordered container is never edited with an operation that moves other entries
    ck.rule("R21.ordered-collection-edits", "no order-breaking operation (swap_remove family, the deprecated remove/take aliases, swap_indices, move_index, reverse, "
            "unstable sorts) is applied to an IndexMap / IndexSet", floor=2)
    for f, sp, api, ok in ordered_edit_rule(fx, lambda g: g.file.startswith("src/")):
        ck.instance("R21.ordered-collection-edits", "%s: %s" % (f.path, api), F.short_span(sp), ok=ok)
        if not ok:
            ck.finding("R21.ordered-collection-edits", "R21.ordered-collection-edits/%s/%s" % (f.parent if f.closure else f.path, api), F.short_span(sp),
                       "`%s` edits an insertion-ordered collection with `%s`, which moves the last entry into the hole: `new Map([[a,1],[b,2],[c,3],[d,4]])` "
                       "after `delete(b)` enumerates a, d, c (insertion order is a, c, d)" % (f.path, api))
    ctl21 = F.load_fixture()
    got21 = sorted((f.path.split("::")[-1], api, ok) for f, sp, api, ok in ordered_edit_rule(ctl21, lambda g: g.path.startswith("c01order::")))
    if got21 != [("bad_delete", "swap_remove", False), ("good_delete", "shift_remove", True)]:
        ck.closed_fail.append("R21 control failed: fixture reports %s" % got21)
    ck.note("R21 controls: fixture bad_delete (swap_remove) reported, good_delete (shift_remove) silent")
    # ---- R24 a jump out of a finally block discards the parked completion
    ck.rule("R24.jump-out-of-finally-discards", "every emitter of Op::Break / Op::Continue first decides whether to emit Op::DiscardCompletion, from a compiler field that the "
            "compiler of finally blocks maintains; the VM arm of that opcode empties pending_completion", floor=3)
    for f24, what24, sp24, ok24, why24 in discard_rule(fx, comp, OP):
        ck.instance("R24.jump-out-of-finally-discards", "%s %s" % (f24.path, what24), F.short_span(sp24), ok=ok24)
        if not ok24:
            ck.finding("R24.jump-out-of-finally-discards", "R24.jump-out-of-finally-discards/%s/%s" % (f24.path, what24.split("::")[-1].replace(" ", "-")), F.short_span(sp24),
                       "`%s` %s: the completion a finally block was entered with stays parked when a `break` or `continue` leaves the block, and the next FinallyEnd of the "
                       "function takes it up - `for(;;){ try { return 1 } finally { break } } try {} finally {} return 2` returns 1" % (f24.path, why24))
    vm24 = [g for p, g in fx.fns.items() if p.endswith("BytecodeVM::execute_op") and not g.closure]
    ok_vm = False
    if vm24:
        for b24, en24, pl24, arms24, other24, rest24 in M.enum_switches(fx, vm24[0]):
            if str(en24).endswith("bytecode::Op") and "DiscardCompletion" in arms24:
                reg24 = M.dominated_region(vm24[0], arms24["DiscardCompletion"])
                for b2 in reg24:
                    for s_ in vm24[0].blocks[b2]["s"]:
                        if s_[0] == "a" and any(n_ == "pending_completion" for a_, v_, n_ in F.place_fields(s_[1])):
                            ok_vm = True
    ck.instance("R24.jump-out-of-finally-discards", "execute_op: the arm of Op::DiscardCompletion writes pending_completion", None, ok=ok_vm)
    if not ok_vm:
        ck.finding("R24.jump-out-of-finally-discards", "R24.jump-out-of-finally-discards/vm-arm", None,
                   "the VM has no arm for Op::DiscardCompletion that empties pending_completion: nothing forgets the completion of a finally block that a jump leaves")
    # ---- R25 `in` is HasProperty: own properties and the prototype chain
    ck.rule("R25.in-walks-prototype-chain", "the VM arm of Op::In (and the plain-object branch of proxy_has, which Reflect.has and the proxy forwarding use) decides membership "
            "with a JsObject lookup that walks the prototype chain (a method that reads JsObject.prototype and recurses), never with an own-property lookup alone", floor=2)
    walkers25 = set()
    for p25, g25 in fx.fns.items():
        if g25.closure or g25.derived or not p25.startswith("value::JsObject::"):
            continue
        rec25 = any((t[1].get("d") or "") == p25 for _, t in g25.calls())
        reads25 = False
        for bl in g25.blocks:
            for s_ in bl["s"]:
                if s_[0] == "a" and any(n_ == "prototype" for pl_ in F.rvalue_places(s_[2]) for a_, v_, n_ in F.place_fields(pl_)):
                    reads25 = True
        if rec25 and reads25:
            walkers25.add(p25)
    ck.anchor(len(walkers25) >= 2, "JsObject has chain-walking lookups (get_property, get_property_descriptor)")
    OWN25 = ("::has_own_property", "::get_own_property")
    sites25 = []
    if vm24:
        for b25, en25, pl25, arms25, other25, rest25 in M.enum_switches(fx, vm24[0]):
            if str(en25).endswith("bytecode::Op") and "In" in arms25:
                sites25.append(("execute_op/Op::In", vm24[0], M.dominated_region(vm24[0], arms25["In"])))
    for p25, g25 in fx.fns.items():
        if p25.endswith("proxy::proxy_has") and not g25.closure:
            sites25.append(("proxy_has", g25, set(range(len(g25.blocks)))))
    ck.anchor(len(sites25) >= 2, "the two deciders of HasProperty (the Op::In arm, proxy_has)")
    for nm25, g25, reg25 in sites25:
        ds25 = [(t[1].get("d") or "", t[6]) for bi, t in g25.calls() if bi in reg25]
        walks = [d for d, _ in ds25 if d in walkers25]
        owns = [(d, sp) for d, sp in ds25 if d.endswith(OWN25)]
        ok25 = bool(walks) and not owns
        ck.instance("R25.in-walks-prototype-chain", "%s: %s" % (nm25, ", ".join(sorted(set(w.split("::")[-1] for w in walks))) or "no chain lookup"), F.short_span(g25.span), ok=ok25)
        if not ok25:
            ck.finding("R25.in-walks-prototype-chain", "R25.in-walks-prototype-chain/%s" % nm25, F.short_span(owns[0][1] if owns else g25.span),
                       "`%s` decides `key in obj` with %s: inherited properties and the elements of an array are not found - `'toString' in {}`, `0 in [1]`, "
                       "`'length' in []`, `'m' in new (class { m(){} })` are all false" % (nm25, ("`%s`" % owns[0][0].split("::")[-1]) if owns else "no lookup that walks the prototype chain"))
    # ---- R26 numeric natives: no half-away rounding, extremes order the zeros
    import mathsign
    ck.rule("R26.rounding-and-zero-order", "(a) no function of the interpreter rounds a script number half away from zero (`f64::round`, `libm::round`, a wrapper of one): "
            "Math.round rounds halves up and keeps -0; (b) a loop that selects an extreme of doubles by `<` / `>` also consults the sign, because the comparisons "
            "do not order -0 and +0", floor=2)
    sc26 = lambda g: g.file.startswith("src/interpreter/")
    rs26 = mathsign.round_sites(fx, sc26)
    ck.instance("R26.rounding-and-zero-order", "half-away rounding calls in the interpreter: %d" % len(rs26), None, ok=not rs26)
    for f26, sp26, d26 in rs26:
        ck.finding("R26.rounding-and-zero-order", "R26.rounding-and-zero-order/%s/round" % f26.path, F.short_span(sp26),
                   "`%s` rounds with `%s`, which rounds halves away from zero: Math.round(-2.5) is -3 (-2) and Math.round(-0.5) is -1 (-0)" % (f26.path, d26.split("::")[-1]))
    ex26 = mathsign.extreme_loops(fx, sc26)
    ck.anchor(len(ex26) >= 2, "loops that select an extreme of doubles (Math.max, Math.min)")
    for f26, sp26, ok26 in ex26:
        ck.instance("R26.rounding-and-zero-order", "%s: extreme loop consults the sign" % f26.path, F.short_span(sp26), ok=ok26)
        if not ok26:
            ck.finding("R26.rounding-and-zero-order", "R26.rounding-and-zero-order/%s/zeros" % f26.path, F.short_span(sp26),
                       "`%s` selects the extreme by `<` / `>` alone: the two zeros compare equal, so the first one wins - Math.max(-0, 0) is -0 and Math.min(0, -0) is +0" % f26.path)
    # ---- R27 registers released last-allocated-first
    ck.rule("R27.release-loops-reverse", "a loop of the compiler that only releases registers (free_register and no alloc_register) walks its collection backwards "
            "(`.rev()` / `pop()`): the allocator hands the most recently freed register out first, and the value of a program is what its last expression "
            "statement left in register 0", floor=5)
    n27 = 0
    for f27, sp27, ok27 in release_loops(fx, comp):
        p27 = f27.path
        n27 += 1
        ck.instance("R27.release-loops-reverse", "%s: release loop" % p27, F.short_span(sp27), ok=ok27)
        if not ok27:
            ck.finding("R27.release-loops-reverse", "R27.release-loops-reverse/%s" % p27, F.short_span(sp27),
                       "`%s` releases its registers in the order it allocated them: the next statement is handed the highest of them, not register 0, and the "
                       "program's value is whatever register 0 still holds - `for (let i = 0, j = 10; i < 3; i++) {} 5` completes with 2" % p27)
    ck.anchor(n27 >= 5, "release loops of the compiler (decorator registers, loop-variable registers)")
    # ---- R28 for-in / for-of: one scope per iteration
    ck.rule("R28.iteration-scope-per-step", "a compiler of for-in / for-of (it emits Op::IteratorNext and binds the loop variable with compile_for_in_of_left) pushes a scope "
            "between the iterator step and the binding, and pops one between the body and the back jump: each iteration's closures keep their own binding", floor=2)
    n28 = 0
    for p28, f28 in sorted(fx.fns.items()):
        if f28.derived or f28.closure or not comp(f28):
            continue
        cs28 = list(f28.calls())
        binds28 = [bi for bi, t in cs28 if (t[1].get("d") or "").endswith("::compile_for_in_of_left")]
        nexts28 = [b for b, _ in op_aggs(f28, OP, "IteratorNext")]
        if not binds28 or not nexts28:
            continue
        n28 += 1
        pushes28 = [bi for bi, t in cs28 if (t[1].get("d") or "").endswith("::emit_push_scope")]
        pops28 = [bi for bi, t in cs28 if (t[1].get("d") or "").endswith("::emit_pop_scope")]
        bodies28 = [bi for bi, t in cs28 if (t[1].get("d") or "").endswith("::compile_statement_impl")]
        backs28 = [bi for bi, t in cs28 if (t[1].get("d") or "").endswith("::emit_jump_to")]
        ok_push = all(any(f28.dominates(n_, p_) and f28.dominates(p_, b_) for n_ in nexts28 for p_ in pushes28) for b_ in binds28)
        ok_pop = bool(bodies28) and bool(backs28) and all(any(f28.dominates(bd, q_) and f28.dominates(q_, bk) for bd in bodies28 for q_ in pops28) for bk in backs28)
        ck.instance("R28.iteration-scope-per-step", "%s: scope pushed per iteration" % p28, F.short_span(f28.span), ok=ok_push)
        ck.instance("R28.iteration-scope-per-step", "%s: scope popped before the back jump" % p28, F.short_span(f28.span), ok=ok_pop or not ok_push)
        if not ok_push:
            ck.finding("R28.iteration-scope-per-step", "R28.iteration-scope-per-step/%s/push" % p28, F.short_span(f28.span),
                       "`%s` binds the loop variable of every iteration in one scope: the closures of all iterations share the last binding - "
                       "`for (const x of [1,2,3]) fs.push(() => x)` gives 3,3,3 (1,2,3)" % p28)
        elif not ok_pop:
            ck.finding("R28.iteration-scope-per-step", "R28.iteration-scope-per-step/%s/pop" % p28, F.short_span(f28.span),
                       "`%s` pushes a scope for each iteration and does not pop it before the back jump: the scope chain grows with every iteration" % p28)
    ck.anchor(n28 >= 2, "the compilers of for-in and for-of")
    # ---- R13 string positions have units
    import strunits
    ck.rule("R13.string-units", "units check over string natives: no script number from a byte quantity (U-out), no byte-position API fed a character quantity (U-in), "
            "no arithmetic / comparison / min / default mixing the two (U-mix), no character-position API fed a byte quantity (U-nth)", floor=80)
    sc = lambda g: g.file.startswith(("src/interpreter/builtins/", "src/interpreter/mod.rs", "src/interpreter/bytecode_vm.rs", "src/value.rs"))
    res, st = strunits.sites(fx, sc)
    for kind in ("out", "in", "mix", "nth"):
        for i in range(st[kind]):
            ck.instance("R13.string-units", "U-%s site %d" % (kind, i), None, nontrivial=False)
    ck.anchor(st["out"] >= 30 and st["in"] >= 20 and st["mix"] >= 20,
              "unit-carrying sites of the string natives (script numbers %d, byte-position calls %d, mixed-operand operations %d, converters %d)" % (st["out"], st["in"], st["mix"], st["helpers"]))
    seenk = set()
    for f, top, kind, sp, msg in res:
        ck.instance("R13.string-units", "%s: %s" % (f.path, kind), F.short_span(sp), ok=False)
        key = "R13.string-units/%s/%s" % (top, kind)
        if key in seenk:
            continue
        seenk.add(key)
        ck.finding("R13.string-units", key, F.short_span(sp), "`%s`: %s - strings are UTF-8, positions a script sees count characters; the two agree only on ASCII text "
                   "(`'héllo'.indexOf('l')` gave 3)" % (top, msg))
    # ---- R14 the searching natives of RegExp.prototype share the lastIndex protocol
    ck.rule("R14.regexp-lastindex", "a RegExp.prototype native that runs the matcher itself reads and writes `lastIndex` (test / exec agree on where a global or sticky regex resumes)", floor=1)
    for f, uses, sp in regexp_rule(fx, lambda g: g.file.endswith("builtins/regexp.rs")):
        ck.instance("R14.regexp-lastindex", f.path, F.short_span(sp), ok=uses)
        if not uses:
            ck.finding("R14.regexp-lastindex", "R14.regexp-lastindex/%s" % f.path, F.short_span(sp),
                       "`%s` runs the matcher on its receiver without touching `lastIndex`: a global or sticky regex starts from 0 every time "
                       "(`const re = /a/g; re.test('a'); re.test('a')` gave true, true)" % f.path)
    # ---- R16 static elements of a class: after the class binding and the private methods, in source order
    ck.rule("R16.static-elements-order", "static field initialisers, static private field initialisers and static blocks are emitted after the class-name binding and the "
            "private methods, from one loop (source order)", floor=3)
    for f, kind, ok, sp, why in static_order_rule(fx, comp, OP):
        ck.instance("R16.static-elements-order", "%s: %s" % (f.path, kind), F.short_span(sp), ok=ok)
        if not ok:
            ck.finding("R16.static-elements-order", "R16.static-elements-order/%s/%s" % (f.path, kind), F.short_span(sp), "`%s`: %s" % (f.path, why))
    # ---- R20 a parser that builds a node keeps the expressions it parses
    ck.rule("R20.parsed-expression-kept", "a parser function that returns an AST node uses the value of every expression it parses (only functions that return no node - "
                                          "the skippers of ambient declarations - may parse and drop)", floor=25)
    for f, callee, sp, used in parse_drop_rule(fx, lambda g: g.file.endswith("src/parser.rs")):
        skipper = fx.tys(f.locals[0]).startswith("std::result::Result<(), ")
        ck.instance("R20.parsed-expression-kept", "%s: %s%s" % (f.path, callee, " (skipper: returns no node)" if skipper and not used else ""), F.short_span(sp),
                    ok=used or skipper, nontrivial=not (skipper and not used))
        if not used and not skipper:
            ck.finding("R20.parsed-expression-kept", "R20.parsed-expression-kept/%s/%s" % (f.path, callee), F.short_span(sp),
                       "`%s` parses an expression with `%s` and drops the result: the program text it stands for is silently ignored "
                       "(`async (a = 7) => a` - the default value never reached the AST)" % (f.path, callee))
    # ---- R19 the "arguments were packed" flag is never ignored
    # compile_arguments returns (start, count, has_spread): with a spread among the arguments they arrive packed in ONE array register, and the caller
    # must pick the *Spread form of its call instruction.  A call site that drops the flag passes the array itself as the only argument.
    ck.rule("R19.spread-flag-read", "every caller of compile_arguments reads the has_spread component of its result", floor=4)
    ca = [p for p in fx.fns if p.endswith("::compile_arguments")]
    if ck.anchor(len(ca) == 1 and "bool" in fx.tys(fx.fns[ca[0]].sig[-1]), "Compiler::compile_arguments -> Result<(Register, u8, bool), _>"):
        for p, g in sorted(fx.fns.items()):
            if g.derived or not comp(g):
                continue
            for bi, t in g.calls():
                if t[1].get("d") != ca[0] or t[3][1]:
                    continue
                holders = {t[3][0]}
                ch = True
                while ch:
                    ch = False
                    for b2, t2 in g.calls():
                        if ("ops::Try" in (t2[1].get("d") or "")) and t2[2] and t2[2][0][0] in ("c", "m") and t2[2][0][1][0] in holders and not t2[3][1] and t2[3][0] not in holders:
                            holders.add(t2[3][0]); ch = True
                    for bl in g.blocks:
                        for st in bl["s"]:
                            if st[0] == "a" and not st[1][1] and st[1][0] not in holders and st[2][0] == "use" and st[2][1][0] in ("c", "m") and st[2][1][1][0] in holders \
                                    and not any(isinstance(e, list) and e[0] == "f" and e[3] == "tuple" for e in st[2][1][1][1]):
                                holders.add(st[1][0]); ch = True
                # a read of tuple component 2 of the (unwrapped) result
                flag_locals = set()
                direct = False
                for bl in g.blocks:
                    for st in bl["s"]:
                        if st[0] == "a" and st[2][0] == "use" and st[2][1][0] in ("c", "m") and st[2][1][1][0] in holders:
                            tf = [e for e in st[2][1][1][1] if isinstance(e, list) and e[0] == "f" and e[3] == "tuple"]
                            if tf and tf[-1][1] == 2 and not st[1][1]:
                                flag_locals.add(st[1][0])
                    tt = bl["t"]
                    if tt[0] == "switch" and tt[1][0] in ("c", "m") and tt[1][1][0] in holders and \
                            any(isinstance(e, list) and e[0] == "f" and e[3] == "tuple" and e[1] == 2 for e in tt[1][1][1]):
                        direct = True
                # the flag is *used*: tested, or handed on (a `let (.., _has_spread) = ..` binding that nothing reads does not count)
                read = direct
                for bl in g.blocks:
                    tt = bl["t"]
                    if tt[0] == "switch" and tt[1][0] in ("c", "m") and tt[1][1][0] in flag_locals:
                        read = True
                    if tt[0] == "call" and any(a[0] in ("c", "m") and a[1][0] in flag_locals for a in tt[2]):
                        read = True
                    for st in bl["s"]:
                        if st[0] == "a" and st[1][0] not in flag_locals and any(pl[0] in flag_locals for pl in F.rvalue_places(st[2])):
                            read = True
                ck.instance("R19.spread-flag-read", "%s: has_spread of compile_arguments" % g.path, F.short_span(t[6]), ok=read)
                if not read:
                    ck.finding("R19.spread-flag-read", "R19.spread-flag-read/%s" % (g.parent if g.closure else g.path), F.short_span(t[6]),
                               "`%s` ignores whether compile_arguments packed the arguments into one array (a spread among them): the call instruction it emits passes that "
                               "array as the only argument - `super(first, ...rest)` hands the base constructor one array" % g.path)
    # ---- R18 the compilers of a parameter list agree (T-SIB): every kind of parameter is bound, and a rest parameter is recorded
    ck.rule("R18.parameter-list-siblings", "every function that compiles a parameter list (a match on ast::Pattern next to a FunctionInfo it builds) binds each kind of "
                                           "parameter and records the rest parameter", floor=6)
    for f, kind, ok, sp, why in param_sibling_rule(fx, comp, OP):
        ck.instance("R18.parameter-list-siblings", "%s: %s" % (f.path, kind), F.short_span(sp), ok=ok)
        if not ok:
            ck.finding("R18.parameter-list-siblings", "R18.parameter-list-siblings/%s/%s" % (f.path, kind), F.short_span(sp), "`%s`: %s" % (f.path, why))
    # ---- R17 the constant pool shares a string slot by identity
    # Variable names are looked up by identity at run time (value::VarKey hashes and compares the allocation); a pool that hands out the slot of *equal
    # text* lets a string the compiler made itself capture the slot of an interned identifier, and the binding is not found from another chunk.
    ck.rule("R17.pool-dedupe-identity", "a function of the bytecode builder that returns the slot found for a string in a text-keyed map does so only behind an identity "
                                        "test of the stored string (ptr_eq)", floor=1)
    for f, ok, sp in pool_identity_rule(fx, lambda g: g.file.startswith("src/compiler/builder.rs")):
        ck.instance("R17.pool-dedupe-identity", f.path, F.short_span(sp), ok=ok)
        if not ok:
            ck.finding("R17.pool-dedupe-identity", "R17.pool-dedupe-identity/%s" % f.path, F.short_span(sp),
                       "`%s` returns the slot of any string with equal text: names are compared by allocation at run time (VarKey), so an identifier that lands on a "
                       "compiler-made string's slot is never found - `enum E { A = 1 << 1, B }  let number = 5; function f() { return number }` throws" % f.path)
    ck.anchor(any(str(a).endswith("value::VarKey") for a in fx.adts), "value::VarKey (names compared by allocation)")
    # ---- R15 numeric property names (shared with C15 R5): `{ 1e21: v }` and `o[1e21]` name the same property
    import numfmt
    ck.rule("R15.numeric-keys", "the compiler never spells a numeric literal (a property name) with Rust's f64::to_string(): only value::number_to_string agrees with the run-time ToString of computed keys", floor=0)
    numfmt.to_string_rule(fx, ck, lambda g: g.file.startswith("src/compiler"), rule_id="R15.numeric-keys")
    for g in fx.fns.values():
        if not g.derived and g.file.startswith("src/compiler/compile_expr.rs"):
            ck.instance("R15.numeric-keys", g.path, None, nontrivial=False)
    ckc = type(ck)("C01", "quick", "", [])
    ckc.rule("R15.numeric-keys", "", floor=0)
    if numfmt.to_string_rule(F.load_fixture(), ckc, lambda g: g.path.startswith("c15::print"), printer_root="c15::print::number_to_string", rule_id="R15.numeric-keys") != 1 or len(ckc.findings) != 1:
        ck.closed_fail.append("R15 control failed: the fixture's f64::to_string printer was not reported exactly once")
    # ---- fixture controls
    ctl = F.load_fixture()
    resc, stc = strunits.sites(ctl, lambda g: g.path.startswith("c01units::"))
    gotu = sorted({"%s/%s" % (top.split("::")[-1], kind) for f, top, kind, sp, msg in resc})
    wantu = ["bad_at/U-mix", "bad_at/U-nth", "bad_index_of/U-in", "bad_index_of/U-mix", "bad_search/U-out", "bad_swapped_converter/U-in"]
    if gotu != wantu:
        ck.closed_fail.append("R13 control failed: fixture reports %s, want %s" % (gotu, wantu))
    rx = {f.path.split("::")[-1]: uses for f, uses, sp in regexp_rule(ctl, lambda g: g.path.startswith("c01units::"), matcher="c01units::Re::is_match")}
    if rx != {"bad_test": False, "good_exec": True}:
        ck.closed_fail.append("R14 control failed: %s" % rx)
    in_ctl = lambda g: g.path.startswith("c01b::")
    OPC = "c01b::Op"
    sw = {f.path.split("::")[-1]: bool(bad) for f, h, sp, bad in switch_rule(ctl, in_ctl, OPC)}
    if sw != {"bad_switch": True, "good_switch": False, "good_switch_patched": False}:
        ck.closed_fail.append("R9 control failed: %s" % sw)
    pi = {}
    for f, ok, sp, why in perit_rule(ctl, in_ctl, OPC):
        nm = f.path.split("::")[-1]
        pi[nm] = pi.get(nm, True) and ok
    if pi != {"bad_for": False, "good_for": True, "bad_for_continue": False, "good_for_continue": True, "bad_for_update_first": False}:
        ck.closed_fail.append("R10 control failed: %s" % pi)
    rl27 = {f.path.split("::")[-1]: ok for f, sp, ok in release_loops(ctl, in_ctl)}
    if rl27 != {"bad_release": False, "good_release": True, "good_release_pop": True}:
        ck.closed_fail.append("R27 control failed: %s" % rl27)
    import mathsign as MS26
    in26 = lambda g: g.path.startswith("c01math::") and not g.path.startswith("c01math::prelude::")
    r26 = sorted(set(f.path.split("::")[-1] for f, sp, d in MS26.round_sites(ctl, in26)))
    e26 = {f.path.split("::")[-1]: ok for f, sp, ok in MS26.extreme_loops(ctl, in26)}
    if r26 != ["bad_round", "bad_round_direct"] or e26 != {"bad_max": False, "good_max": True}:
        ck.closed_fail.append("R26 control failed: %s %s" % (r26, e26))
    oa = {}
    for f, sp, ok, why in operand_rule(ctl, in_ctl):
        nm = f.path.split("::")[-1]
        oa[nm] = oa.get(nm, True) and ok
    if oa != {"bad_rest": False, "good_window": True}:
        ck.closed_fail.append("R11 control failed: %s" % oa)
    us = sorted(f.path.split("::")[-1] for f, sp, api in unstable_rule(ctl, in_ctl, value_marks=("c01b::JsValue",)))
    if us != ["bad_sort"]:
        ck.closed_fail.append("R12 control failed: %s" % us)
    ck.note("R9-R12 controls: fixture bad_switch / bad_for / bad_rest / bad_sort reported; good_switch, good_switch_patched, good_for, good_window, good_sort, index_sort silent")
