"""C07: which fields of the running VM flow into the saved state, and back (field-level taint)."""
import facts as F
import mir as M


def field_taint(fx, f, adts, param_local=None):
    """local -> set of (adt, field) it derives from; adts = ADT paths whose fields are sources.
    If param_local is given, anything derived from that parameter is tainted with ('<param>', '')."""
    taint = {}

    def place_taint(pl):
        out = set()
        fl = F.place_fields(pl)
        for (adt, v, name) in fl:
            if adt in adts:
                out.add((adt, name))
                break
        out |= taint.get(pl[0], set())
        if param_local is not None and pl[0] == param_local:
            out.add(("<param>", ""))
        return out

    changed = True
    it = 0
    while changed and it < 50:
        changed = False
        it += 1
        for bl in f.blocks:
            for s in bl["s"]:
                if s[0] != "a":
                    continue
                t = set()
                for pl in F.rvalue_places(s[2]):
                    t |= place_taint(pl)
                if t:
                    d = s[1][0]
                    old = taint.get(d, set())
                    if not t <= old:
                        taint[d] = old | t
                        changed = True
            tm = bl["t"]
            if tm[0] == "call":
                t = set()
                for a in tm[2]:
                    if a[0] in ("c", "m"):
                        t |= place_taint(a[1])
                if t:
                    d = tm[3][0]
                    old = taint.get(d, set())
                    if not t <= old:
                        taint[d] = old | t
                        changed = True
                    # `&mut` arguments may be written by the callee with other arguments' data
                    for a in tm[2]:
                        if a[0] in ("c", "m") and not a[1][1] and fx.tys(f.locals[a[1][0]]).startswith("&mut "):
                            old = taint.get(a[1][0], set())
                            if not t <= old:
                                taint[a[1][0]] = old | t
                                changed = True
    return taint


def aggregates(fx, f, adt):
    for bi, bl in enumerate(f.blocks):
        for s in bl["s"]:
            if s[0] == "a" and s[2][0] == "agg" and s[2][1].get("k") == "adt" and s[2][1]["p"] == adt:
                yield bi, s
