//! Type-level witnesses for the tsrun static checks (run with `cargo +nightly test --doc`).
//! Every `compile_fail,E0277` block has a compiling twin that differs only in the offending
//! line, so a witness that fails for an unrelated reason (wrong path, missing item) is caught.

/// C12/R5: an `Interpreter` cannot be sent to or shared with another thread.
///
/// twin (compiles):
/// ```
/// fn needs_sized<T: Sized>() {}
/// needs_sized::<tsrun::Interpreter>();
/// ```
/// ```compile_fail,E0277
/// fn needs_send<T: Send>() {}
/// needs_send::<tsrun::Interpreter>();
/// ```
/// ```compile_fail,E0277
/// fn needs_sync<T: Sync>() {}
/// needs_sync::<tsrun::Interpreter>();
/// ```
pub struct C12Interpreter;

/// C12/R5: GC handles, guards, heaps cannot cross threads.
///
/// ```
/// fn needs_sized<T: Sized>() {}
/// needs_sized::<tsrun::Gc<tsrun::JsObject>>();
/// needs_sized::<tsrun::Guard<tsrun::JsObject>>();
/// needs_sized::<tsrun::Heap<tsrun::JsObject>>();
/// ```
/// ```compile_fail,E0277
/// fn needs_send<T: Send>() {}
/// needs_send::<tsrun::Gc<tsrun::JsObject>>();
/// ```
/// ```compile_fail,E0277
/// fn needs_sync<T: Sync>() {}
/// needs_sync::<tsrun::Gc<tsrun::JsObject>>();
/// ```
/// ```compile_fail,E0277
/// fn needs_send<T: Send>() {}
/// needs_send::<tsrun::Guard<tsrun::JsObject>>();
/// ```
/// ```compile_fail,E0277
/// fn needs_sync<T: Sync>() {}
/// needs_sync::<tsrun::Guard<tsrun::JsObject>>();
/// ```
/// ```compile_fail,E0277
/// fn needs_send<T: Send>() {}
/// needs_send::<tsrun::Heap<tsrun::JsObject>>();
/// ```
/// ```compile_fail,E0277
/// fn needs_sync<T: Sync>() {}
/// needs_sync::<tsrun::Heap<tsrun::JsObject>>();
/// ```
pub struct C12Gc;

/// C12/R5: host-held values cannot cross threads.
///
/// ```
/// fn needs_sized<T: Sized>() {}
/// needs_sized::<tsrun::RuntimeValue>();
/// needs_sized::<tsrun::JsValue>();
/// ```
/// ```compile_fail,E0277
/// fn needs_send<T: Send>() {}
/// needs_send::<tsrun::RuntimeValue>();
/// ```
/// ```compile_fail,E0277
/// fn needs_sync<T: Sync>() {}
/// needs_sync::<tsrun::RuntimeValue>();
/// ```
/// ```compile_fail,E0277
/// fn needs_send<T: Send>() {}
/// needs_send::<tsrun::JsValue>();
/// ```
pub struct C12Values;
