//! Positive controls for the zero-expected rules of the tsrun static checks.
//! Every item here is an instance a rule MUST report; a check whose rule stays silent on this
//! crate has lost its ability to see the construct and fails closed.
#![allow(dead_code, static_mut_refs)]
use std::cell::Cell;
use std::collections::HashMap;
use std::sync::atomic::{AtomicU64, Ordering};

// C12.1 shared mutable state
pub static mut COUNTER_MUT: u64 = 0;
pub static COUNTER_ATOMIC: AtomicU64 = AtomicU64::new(0);
thread_local! { pub static TL: Cell<u32> = Cell::new(0); }

pub fn bump() -> u64 {
    TL.with(|c| c.set(c.get() + 1));
    unsafe { COUNTER_MUT += 1 };
    COUNTER_ATOMIC.fetch_add(1, Ordering::SeqCst)
}

// C12.2 ambient nondeterminism
pub fn ambient() -> u128 {
    let t = std::time::Instant::now();
    let s = std::time::SystemTime::now().duration_since(std::time::UNIX_EPOCH).map(|d| d.as_nanos()).unwrap_or(0);
    s + t.elapsed().as_nanos()
}

// C12.3 randomly seeded hasher
pub fn random_hasher() -> usize {
    let mut m: HashMap<String, u32> = HashMap::new();
    m.insert("a".into(), 1);
    m.len()
}

// C12.4 address leaves the comparison-only world
pub fn address_escapes(b: &Box<u32>) -> String {
    let p = (&**b) as *const u32 as usize;
    format!("{}", p)
}
