//! Positive controls for the zero-expected rules of the tsrun static checks.
//! Every item here is an instance a rule MUST report; a check whose rule stays silent on this
//! crate has lost its ability to see the construct and fails closed.
#![allow(dead_code, static_mut_refs)]
use std::cell::Cell;
use std::collections::HashMap;
use std::sync::atomic::{AtomicU64, Ordering};

// C12.1 shared mutable state
pub static mut COUNTER_MUT: u64 = 0;
pub static COUNTER_ATOMIC: AtomicU64 = AtomicU64::new(0);
thread_local! { pub static TL: Cell<u32> = Cell::new(0); }

pub fn bump() -> u64 {
    TL.with(|c| c.set(c.get() + 1));
    unsafe { COUNTER_MUT += 1 };
    COUNTER_ATOMIC.fetch_add(1, Ordering::SeqCst)
}

// C12.2 ambient nondeterminism
pub fn ambient() -> u128 {
    let t = std::time::Instant::now();
    let s = std::time::SystemTime::now().duration_since(std::time::UNIX_EPOCH).map(|d| d.as_nanos()).unwrap_or(0);
    s + t.elapsed().as_nanos()
}

// C12.3 randomly seeded hasher
pub fn random_hasher() -> usize {
    let mut m: HashMap<String, u32> = HashMap::new();
    m.insert("a".into(), 1);
    m.len()
}

// C12.4 address leaves the comparison-only world
pub fn address_escapes(b: &Box<u32>) -> String {
    let p = (&**b) as *const u32 as usize;
    format!("{}", p)
}

// C03 positive controls: a back end that looks at type syntax
pub mod ast {
    pub struct Program { pub body: Vec<Statement> }
    pub enum Statement { Let(Param), TypeAlias(Box<TypeAliasDeclaration>) }
    pub struct Param { pub name: String, pub type_annotation: Option<Box<TypeAnnotation>> }
    pub enum TypeAnnotation { Keyword(TypeKeyword), Array(Box<TypeAnnotation>) }
    pub struct TypeKeyword { pub kind: u8 }
    pub struct TypeAliasDeclaration { pub name: String, pub ty: TypeAnnotation }
    pub struct ClassProperty { pub name: String, pub optional: bool }
}
pub mod backend {
    use super::ast::*;
    pub fn emit(n: u32) -> u32 { n + 1 }
    // R1b control: an optional field generates no code
    pub fn compile_field(p: &ClassProperty, ops: u32) -> u32 {
        if p.optional { ops } else { emit(ops) + p.name.len() as u32 }
    }
    pub fn compile(p: &Program) -> u32 {
        let mut ops = 0;
        for s in &p.body {
            match s {
                Statement::Let(param) => {
                    if param.type_annotation.is_some() { ops = emit(ops); }
                    ops += param.name.len() as u32;
                }
                Statement::TypeAlias(_) => { ops = emit(ops); }
            }
        }
        ops
    }
}

// C15 positive/negative controls for the modular-conversion helper rule
pub mod c15 {
    pub fn bad_to_int32(n: f64) -> i32 {
        let t = n.trunc();
        t as i32
    }
    pub fn good_to_uint32(n: f64) -> u32 {
        if n.is_nan() || n.is_infinite() { return 0; }
        let mut m = n.trunc() % 4294967296.0;
        if m < 0.0 { m += 4294967296.0; }
        m as u32
    }
    // R1b control: a shift folded in 64 bits on a value cast from f64
    pub mod fold {
        pub fn shl(left: f64, count: f64) -> f64 { ((left as i64) << (count as u32 & 0x1f)) as f64 }
    }
    // R4-R6 controls: printers that print a computed mantissa, a second default printer, precision formatting
    pub mod print {
        pub fn number_to_string(n: f64) -> String {
            if n == 0.5 { return saturating_int(n) + &guarded_int(n); }
            if n.abs() >= 1e21 { format_exponential(n) } else { format!("{}", n) }
        }
        fn format_exponential(n: f64) -> String {
            let exponent = n.abs().log10().floor() as i32;
            let mantissa = n / 10f64.powi(exponent);
            format!("{}e+{}", mantissa, exponent)
        }
        pub fn second_printer(n: f64) -> String {
            format!("{}", n)
        }
        /// BAD (R5, second half): Rust's to_string() is the same second printer
        pub fn third_printer(n: f64) -> String {
            n.to_string()
        }
        /// GOOD: an integer's to_string() is not a number printer
        pub fn int_text(i: u32) -> String {
            i.to_string()
        }
        /// BAD (R6): constant precision - exact expansion / tie-to-even digits instead of the shortest ones
        pub fn fixed0(n: f64) -> String {
            format!("{:.0}", n)
        }
        pub fn to_fixed(n: f64, digits: usize) -> String {
            format!("{:.prec$}", n, prec = digits)
        }
        /// BAD (R4b): saturates from 2^63 although the branch admits everything below 1e21
        pub fn saturating_int(n: f64) -> String {
            if n.abs() < 1e21 { (n as i64).to_string() } else { String::new() }
        }
        /// GOOD (R4b): the comparison keeps the value inside i64
        pub fn guarded_int(n: f64) -> String {
            if n.abs() < 9.0e15 { (n as i64).to_string() } else { String::new() }
        }
    }
}

// C10 controls for the range-guard recognizer
pub mod c10 {
    pub fn guarded(v: &Vec<u32>) -> Result<u16, ()> {
        if v.len() >= u16::MAX as usize { return Err(()); }
        let idx = v.len() as u16;
        Ok(idx)
    }
    pub fn unguarded(v: &Vec<u32>) -> u8 {
        let n = v.len();
        n as u8
    }
}

// C02 positive control for the guardflow analysis: a value extracted from a callee-returned
// Guarded outlives the guard across an allocating call (stub types carry the real names)
pub mod gc {
    use std::marker::PhantomData;
    pub struct Gc<T>(pub u32, pub PhantomData<T>);
    impl<T> Clone for Gc<T> { fn clone(&self) -> Self { Gc(self.0, PhantomData) } }
    pub struct Guard<T>(pub Vec<u32>, pub PhantomData<T>);
    impl<T> Guard<T> { pub fn guard(&self, _o: Gc<T>) {} }
    pub struct Space<T>(pub Vec<u32>, pub PhantomData<T>);
    impl<T> Space<T> { pub fn alloc_internal(&mut self) -> Gc<T> { self.0.push(1); Gc(0, PhantomData) } }
}
pub mod value {
    use super::gc::{Gc, Guard};
    pub struct JsObject;
    #[derive(Clone)]
    pub enum JsValue { Undefined, Number(f64), Object(Gc<JsObject>) }
    pub struct Guarded { pub value: JsValue, pub guard: Option<Guard<JsObject>> }
}
pub mod c02 {
    use super::gc::Space;
    use super::value::{Guarded, JsObject, JsValue};
    pub struct Interp { pub space: Space<JsObject> }
    impl Interp {
        pub fn call_function(&mut self, _f: JsValue, _arg: &[JsValue]) -> Result<Guarded, ()> {
            let o = self.space.alloc_internal();
            Ok(Guarded { value: JsValue::Object(o), guard: None })
        }
    }
    /// BAD: `acc` loses its guard at the end of each iteration and is used in the next call
    pub fn unrooted_accumulator(interp: &mut Interp, cb: JsValue, n: u32) -> Result<JsValue, ()> {
        let mut acc = JsValue::Undefined;
        for _ in 0..n {
            let Guarded { value, guard: _g } = interp.call_function(cb.clone(), &[acc])?;
            acc = value;
        }
        Ok(acc)
    }
    /// BAD (G4e): values of earlier turns are referenced only by the vector while the next call may collect
    pub fn bad_collect(interp: &mut Interp, next: JsValue, n: u32) -> Result<Vec<JsValue>, ()> {
        let mut values = Vec::new();
        for _ in 0..n {
            let Guarded { value, guard: _g } = interp.call_function(next.clone(), &[])?;
            values.push(value);
        }
        Ok(values)
    }
    /// GOOD (G4e): guarded while the vector is being filled
    pub fn good_collect(interp: &mut Interp, next: JsValue, n: u32, keep: &super::gc::Guard<JsObject>) -> Result<Vec<JsValue>, ()> {
        let mut values = Vec::new();
        for _ in 0..n {
            let Guarded { value, guard: _g } = interp.call_function(next.clone(), &[])?;
            if let JsValue::Object(o) = &value { keep.guard(o.clone()); }
            values.push(value);
        }
        Ok(values)
    }
    // G5b controls: a rebuilt frame owns `register_guard`; its parked value must be rooted through it
    pub struct Frame { pub parked: Option<JsValue>, pub registers: Vec<JsValue>, pub register_guard: super::gc::Guard<JsObject> }
    fn dup(v: &JsValue, g: &super::gc::Guard<JsObject>) -> JsValue {
        if let JsValue::Object(o) = v {
            g.guard(o.clone());
        }
        v.clone()
    }
    /// BAD: rooted through the VM's guard, kept in a frame that owns another guard
    pub fn rebuild_frame_foreign_guard(saved: &[JsValue], parked: Option<&JsValue>, vm_guard: super::gc::Guard<JsObject>) -> (Frame, super::gc::Guard<JsObject>) {
        let frame_guard = super::gc::Guard(Vec::new(), std::marker::PhantomData);
        let f = Frame { parked: parked.map(|p| dup(p, &vm_guard)), registers: saved.to_vec(), register_guard: frame_guard };
        (f, vm_guard)
    }
    /// GOOD
    pub fn rebuild_frame_own_guard(saved: &[JsValue], parked: Option<&JsValue>, vm_guard: super::gc::Guard<JsObject>) -> (Frame, super::gc::Guard<JsObject>) {
        let frame_guard = super::gc::Guard(Vec::new(), std::marker::PhantomData);
        let f = Frame { parked: parked.map(|p| dup(p, &frame_guard)), registers: saved.to_vec(), register_guard: frame_guard };
        (f, vm_guard)
    }
    // G6 controls: a parked completion copied without a guard and rethrown as it is
    pub enum PendingCompletion { Throw(Guarded), Return(Guarded) }
    pub enum JsError { ThrownValue { guarded: Guarded }, Other }
    pub struct Vm { pub pending_completion: Option<PendingCompletion> }
    pub fn duplicate(p: &PendingCompletion, keep: &super::gc::Guard<JsObject>) -> PendingCompletion {
        let copy = |g: &Guarded| {
            if let JsValue::Object(o) = &g.value {
                keep.guard(o.clone());
            }
            Guarded { value: g.value.clone(), guard: None }
        };
        match p {
            PendingCompletion::Throw(g) => PendingCompletion::Throw(copy(g)),
            PendingCompletion::Return(g) => PendingCompletion::Return(copy(g)),
        }
    }
    /// BAD: rethrows the stored completion as it is
    pub fn finally_end(vm: &mut Vm) -> Result<(), JsError> {
        if let Some(PendingCompletion::Throw(guarded)) = vm.pending_completion.take() {
            return Err(JsError::ThrownValue { guarded });
        }
        Ok(())
    }
    /// GOOD: the guard is kept alive alongside the value
    pub fn rooted_accumulator(interp: &mut Interp, cb: JsValue, n: u32) -> Result<Guarded, ()> {
        let mut acc = JsValue::Undefined;
        let mut keep = None;
        for _ in 0..n {
            let Guarded { value, guard } = interp.call_function(cb.clone(), &[acc])?;
            acc = value;
            keep = guard;
        }
        Ok(Guarded { value: acc, guard: keep })
    }

    // G4d controls: values moved out of shared (traced) state
    use super::gc::{Gc, Guard};
    use std::cell::RefCell;
    use std::rc::Rc;
    pub struct Handler { pub target: Gc<JsObject>, pub callback: Option<JsValue> }
    pub struct State { pub handlers: Vec<Handler>, pub results: Vec<JsValue> }
    fn run_handler(interp: &mut Interp, h: Handler) -> Result<(), ()> {
        interp.call_function(JsValue::Object(h.target), &[])?;
        Ok(())
    }
    /// BAD: the handlers left the traced state; only the heap kept their objects alive
    pub fn detached_unrooted(interp: &mut Interp, st: &Rc<RefCell<State>>) -> Result<(), ()> {
        let handlers = std::mem::take(&mut st.borrow_mut().handlers);
        for h in handlers {
            run_handler(interp, h)?;
        }
        Ok(())
    }
    fn guard_all(g: &Guard<JsObject>, hs: &[Handler]) {
        for h in hs {
            g.guard(h.target.clone());
            if let Some(JsValue::Object(cb)) = &h.callback { g.guard(cb.clone()); }
        }
    }
    /// GOOD: a helper roots every handler before the first one runs
    pub fn detached_rooted_by_helper(interp: &mut Interp, st: &Rc<RefCell<State>>) -> Result<(), ()> {
        let handlers = std::mem::take(&mut st.borrow_mut().handlers);
        let keep = Guard(Vec::new(), std::marker::PhantomData);
        guard_all(&keep, &handlers);
        for h in handlers {
            run_handler(interp, h)?;
        }
        Ok(())
    }
    /// GOOD: every taken value is guarded in a loop before the allocation
    pub fn detached_rooted_by_loop(interp: &mut Interp, st: &Rc<RefCell<State>>) -> Result<JsValue, ()> {
        let results = std::mem::take(&mut st.borrow_mut().results);
        let keep = Guard(Vec::new(), std::marker::PhantomData);
        for v in &results {
            if let JsValue::Object(o) = v { keep.guard(o.clone()); }
        }
        let Guarded { value: _, guard: _g } = interp.call_function(JsValue::Undefined, &results)?;
        Ok(results.into_iter().next().unwrap_or(JsValue::Undefined))
    }
}

// C01 R7 controls: element-wise copy inside one vector at two different offsets
pub mod c01 {
    /// forward copy without a direction test: wrong when the ranges overlap and to > from
    pub fn bad_copy_within(v: &mut Vec<u64>, from: usize, to: usize, count: usize) {
        for i in 0..count {
            let x = v.get(from + i).cloned();
            if let (Some(x), Some(slot)) = (x, v.get_mut(to + i)) {
                *slot = x;
            }
        }
    }
    /// the direction is chosen by comparing the two offsets
    pub fn good_copy_within(v: &mut Vec<u64>, from: usize, to: usize, count: usize) {
        if to <= from {
            for i in 0..count {
                let x = v.get(from + i).cloned();
                if let (Some(x), Some(slot)) = (x, v.get_mut(to + i)) {
                    *slot = x;
                }
            }
        } else {
            for i in (0..count).rev() {
                let x = v.get(from + i).cloned();
                if let (Some(x), Some(slot)) = (x, v.get_mut(to + i)) {
                    *slot = x;
                }
            }
        }
    }
}

// C13 O8 controls: a word count obtained by truncating division used as the bound of a word counter
pub mod c13 {
    pub struct WordIter { pub words: usize, pub cur: usize }
    pub fn bad_words(len: usize) -> WordIter { WordIter { words: (len >> 6).min(4), cur: 0 } }
    pub fn good_words(len: usize) -> WordIter { WordIter { words: ((len + 63) >> 6).min(4), cur: 0 } }
    impl WordIter {
        pub fn step(&mut self) -> Option<usize> {
            self.cur += 1;
            if self.cur >= self.words { return None; }
            Some(self.cur << 6)
        }
    }
    pub struct CeilIter { pub words: usize, pub cur: usize }
    pub fn ceil_iter(len: usize) -> CeilIter { CeilIter { words: ((len + 63) >> 6).min(4), cur: 0 } }
    impl CeilIter {
        pub fn step(&mut self) -> Option<usize> {
            self.cur += 1;
            if self.cur >= self.words { return None; }
            Some(self.cur << 6)
        }
    }
}

// C13 O9 controls: buffers entering a pool of recycled root lists
pub mod c13pool {
    use std::ptr::NonNull;
    pub struct Space { pub pool: Vec<Vec<NonNull<u64>>> }
    impl Space {
        pub fn good_return(&mut self, mut b: Vec<NonNull<u64>>) {
            if self.pool.len() < 16 { b.clear(); self.pool.push(b); }
        }
        pub fn good_hoisted_clear(&mut self, mut b: Vec<NonNull<u64>>) {
            b.clear();
            if self.pool.len() < 16 { let moved = b; self.pool.push(moved); }
        }
        pub fn bad_return(&mut self, b: Vec<NonNull<u64>>) {
            if self.pool.len() < 16 { self.pool.push(b); }
        }
        pub fn bad_swap(&mut self, mut b: Vec<NonNull<u64>>) {
            if let Some(s) = self.pool.iter_mut().min_by_key(|s| s.capacity()) { std::mem::swap(s, &mut b); }
        }
        pub fn good_swap(&mut self, mut b: Vec<NonNull<u64>>) {
            b.clear();
            if let Some(s) = self.pool.iter_mut().min_by_key(|s| s.capacity()) { std::mem::swap(s, &mut b); }
        }
    }
}

// C12 R4e control: ordering values by their address
pub mod c12order {
    use std::ptr::NonNull;
    pub fn bad_sort(v: &mut Vec<NonNull<u64>>) { v.sort_unstable(); }
    pub fn bad_cmp(a: *const u8, b: *const u8) -> bool { a < b }
    pub fn good_sort(v: &mut Vec<u64>) { v.sort_unstable(); }
}

// C16 R3 control: rewriting serialized text with a structure-blind substitution
pub mod c16text {
    pub fn to_string_pretty(v: &u32) -> Result<String, ()> { Ok(format!("{{\n  \"a\": {}\n}}", v)) }
    pub fn bad_reindent(v: &u32, unit: &str) -> String {
        to_string_pretty(v).map(|s| s.replace("  ", unit)).unwrap_or_default()
    }
    pub fn good_reindent(v: &u32, unit: &str) -> String {
        let s = to_string_pretty(v).unwrap_or_default();
        let mut out = String::new();
        for line in s.lines() {
            let body = line.trim_start();
            let depth = (line.len() - body.len()) / 2;
            for _ in 0..depth { out.push_str(unit); }
            out.push_str(body);
            out.push('\n');
        }
        out
    }
}

// C18 controls: a resolver that (R1) returns an un-normalised join on one path, (R2) keeps '.' segments and
// lets '..' through without removing anything, (R3) uses "" both for "no importer" and as a directory
pub mod c18 {
    pub struct ModulePath(pub String);
    impl ModulePath {
        pub fn is_bare(s: &str) -> bool { !s.starts_with('/') && !s.starts_with("./") && !s.starts_with("..") }
        pub fn parent(&self) -> Option<&str> { self.0.rfind('/').and_then(|i| self.0.get(..i)) }
        pub fn resolve(specifier: &str, base: Option<&ModulePath>) -> ModulePath {
            if Self::is_bare(specifier) {
                return ModulePath(specifier.to_string());
            }
            if specifier.starts_with('/') {
                return ModulePath(specifier.to_string());
            }
            let dir = base.and_then(|b| b.parent()).unwrap_or("");
            let joined = if dir.is_empty() { specifier.to_string() } else { format!("{}/{}", dir, specifier) };
            ModulePath(Self::normalize_path(&joined))
        }
        fn normalize_path(path: &str) -> String {
            if !path.contains('.') {
                return path.to_string();
            }
            let mut kept: Vec<&str> = Vec::new();
            for segment in path.split('/') {
                if segment == "" {
                    continue;
                }
                if segment == ".." {
                    kept.push(segment);
                    continue;
                }
                kept.push(segment);
            }
            kept.join("/")
        }
    }
}

// C09 positive controls: a module loader that is wrong in all six ways the rules of rules/c09.py look for
pub mod c09 {
    use std::collections::HashMap;
    #[derive(Clone, PartialEq, Eq, Hash)]
    pub struct ModulePath(pub String);
    impl ModulePath {
        pub fn new(s: &str) -> ModulePath { ModulePath(s.to_string()) }
        pub fn resolve(spec: &str, _base: Option<&ModulePath>) -> ModulePath { ModulePath(spec.to_string()) }
    }
    #[derive(Clone)]
    pub struct ImportRequest { pub specifier: String, pub resolved_path: ModulePath, pub importer: Option<ModulePath> }
    pub enum StepResult { NeedImports(Vec<ImportRequest>), Continue }
    pub enum ImportSpecifier { Named(String), Default(String), Namespace(String) }
    pub struct Program { pub imports: Vec<(String, Vec<ImportSpecifier>)> }
    pub struct ImportBinding { pub module: u32, pub key: String }
    pub enum JsFunction { ModuleExportGetter { name: String }, ModuleReExportGetter { src: u32, key: String }, Other }
    pub enum ModuleExport { Direct { name: String, value: u64 }, ReExport { source_module: u32, source_key: String } }
    pub struct Interpreter {
        pub loaded_modules: HashMap<ModulePath, u32>,
        pub pending_module_sources: HashMap<ModulePath, Program>,
        pub bindings: HashMap<String, u64>,
        pub import_bindings: Vec<ImportBinding>,
        pub exports: Vec<(String, ModuleExport)>,
        pub published: Vec<(String, u64)>,
        pub getters: Vec<JsFunction>,
    }
    impl Interpreter {
        // R3: the request path is made from the raw specifier
        fn collect(&self, program: &Program, base: Option<&ModulePath>) -> Vec<ImportRequest> {
            let mut out = Vec::new();
            for (s, _) in &program.imports {
                let raw = ModulePath::new(s);
                out.push(ImportRequest { specifier: s.clone(), resolved_path: raw, importer: base.cloned() });
            }
            out
        }
        fn filter_missing(&self, imports: Vec<ImportRequest>) -> Vec<ImportRequest> {
            imports.into_iter().filter(|r| !self.loaded_modules.contains_key(&r.resolved_path)).collect()
        }
        fn filter_unprovided(&self, imports: Vec<ImportRequest>) -> Vec<ImportRequest> {
            imports
                .into_iter()
                .filter(|r| !self.loaded_modules.contains_key(&r.resolved_path) && !self.pending_module_sources.contains_key(&r.resolved_path))
                .collect()
        }
        // R6: the body runs before the module leaves the pending table
        fn run_pending(&mut self, path: &ModulePath) -> Result<(), String> {
            let n = self.body_len(path);
            if n > 1000 {
                return Err("too big".to_string());
            }
            self.pending_module_sources.remove(path);
            self.loaded_modules.insert(path.clone(), n as u32);
            Ok(())
        }
        fn body_len(&mut self, path: &ModulePath) -> usize {
            let specs: Vec<String> = match self.pending_module_sources.get(path) {
                Some(p) => p.imports.iter().map(|(s, _)| s.clone()).collect(),
                None => Vec::new(),
            };
            specs.len()
        }
        pub fn process(&mut self) -> Result<Vec<ImportRequest>, String> {
            loop {
                let mut all: Vec<ImportRequest> = Vec::new();
                let mut ready: Vec<ModulePath> = Vec::new();
                let keys: Vec<ModulePath> = self.pending_module_sources.keys().cloned().collect();
                for k in &keys {
                    // R1: no test that k is not loaded yet
                    if let Some(p) = self.pending_module_sources.get(k) {
                        let imports = self.collect(p, Some(k));
                        // R2: supplied-but-not-run modules count as available
                        let missing = self.filter_unprovided(imports);
                        if missing.is_empty() {
                            ready.push(k.clone());
                        } else {
                            for r in missing {
                                all.push(r); // R4: no membership guard
                            }
                        }
                    }
                }
                if !ready.is_empty() {
                    for k in ready {
                        self.run_pending(&k)?;
                    }
                    continue;
                }
                if all.len() > 100 {
                    continue; // R6: a cycle that runs nothing
                }
                return Ok(all);
            }
        }
        pub fn start(&mut self, program: &Program) -> StepResult {
            let imports = self.collect(program, None);
            let missing = self.filter_missing(imports);
            if !missing.is_empty() {
                return StepResult::NeedImports(missing); // R4: not de-duplicated
            }
            self.install(program);
            StepResult::Continue
        }
        pub fn start_unchecked(&mut self, program: &Program) -> StepResult {
            self.install(program); // R2: bindings installed without a gate
            StepResult::Continue
        }
        fn install(&mut self, program: &Program) {
            for (_, specs) in &program.imports {
                for s in specs {
                    match s {
                        // R5: a snapshot of the value at import time
                        ImportSpecifier::Named(n) => {
                            let v = *self.bindings.get(n).unwrap_or(&0);
                            self.published.push((n.clone(), v));
                        }
                        ImportSpecifier::Default(n) => {
                            self.import_bindings.push(ImportBinding { module: 0, key: n.clone() });
                        }
                        ImportSpecifier::Namespace(_) => {}
                    }
                }
            }
        }
        pub fn finalise(&mut self) {
            let exports: Vec<(String, ModuleExport)> = self.exports.drain(..).collect();
            for (name, e) in exports {
                match e {
                    // R5: the value is copied, no getter, no binding test
                    ModuleExport::Direct { name: _b, value } => {
                        self.published.push((name, value));
                    }
                    ModuleExport::ReExport { source_module, source_key } => {
                        self.getters.push(JsFunction::ModuleReExportGetter { src: source_module, key: source_key });
                    }
                }
            }
        }
    }
}

// C20 positive controls: position bookkeeping that is wrong in every way rules/c20.py looks for
pub mod c20 {
    #[derive(Clone, Copy)]
    pub struct Span { pub start: usize, pub end: usize, pub line: u32, pub column: u32 }
    impl Span {
        pub fn new(start: usize, end: usize, line: u32, column: u32) -> Span { Span { start, end, line, column } }
    }
    pub struct Token { pub kind: u8, pub span: Span }
    impl Token {
        pub fn eof(pos: usize, line: u32, column: u32) -> Token { Token { kind: 0, span: Span::new(pos, pos, line, column) } }
    }
    pub struct Lexer<'a> {
        pub chars: std::iter::Peekable<std::str::CharIndices<'a>>,
        pub current_pos: usize,
        pub line: u32,
        pub column: u32,
        pub start_pos: usize,
        pub start_line: u32,
        pub start_column: u32,
    }
    impl<'a> Lexer<'a> {
        fn advance(&mut self) -> Option<char> {
            let r = self.chars.next();
            if let Some((pos, ch)) = r {
                self.current_pos = pos + ch.len_utf8();
                // L2: CR counts as a line end as well, LS/PS do not
                if ch == '\n' || ch == '\r' {
                    self.line += 1;
                    self.column = 0; // L2: zero-based after a line break
                } else {
                    self.column += 1;
                }
            }
            r.map(|(_, c)| c)
        }
        // L1: a second consumer that does not count
        fn skip_spaces(&mut self) {
            while let Some((_, c)) = self.chars.peek() {
                if *c == ' ' {
                    self.chars.next();
                } else {
                    break;
                }
            }
        }
        pub fn next_token(&mut self) -> Token {
            self.skip_spaces();
            let first = self.advance();
            // L3: the start is recorded after the first character was consumed
            self.start_pos = self.current_pos;
            self.start_line = self.line;
            self.start_column = self.column;
            if first.is_none() {
                return Token::eof(self.current_pos, self.line, self.column);
            }
            while let Some(c) = self.advance() {
                if c == ' ' {
                    break;
                }
            }
            // L3: swapped roles, and the position after the token
            let sp = Span::new(self.start_pos, self.current_pos, self.column, self.start_line);
            Token { kind: 1, span: sp }
        }
    }
    pub struct SourceLocation { pub line: u32, pub column: u32 }
    pub fn syntax_error(_m: &str, line: u32, column: u32) -> SourceLocation { SourceLocation { line, column } }
    // P1: line and column from different spans, and swapped
    pub fn report(a: &Token, b: &Token) -> (SourceLocation, SourceLocation) {
        (syntax_error("x", a.span.line, b.span.column), syntax_error("y", a.span.column, a.span.line))
    }
    pub struct SourceMapEntry { pub bytecode_offset: usize, pub span: Span }
    pub struct Builder { pub code: Vec<u8>, pub source_map: Vec<SourceMapEntry>, pub current_span: Option<Span> }
    impl Builder {
        // M1: offset read after the push
        pub fn emit(&mut self, op: u8) -> usize {
            self.code.push(op);
            let index = self.code.len();
            if let Some(span) = self.current_span {
                // M1c: entries only when the source position moves forward
                let add = match self.source_map.last() {
                    Some(e) => e.span.start < span.start,
                    None => true,
                };
                if add {
                    self.source_map.push(SourceMapEntry { bytecode_offset: index, span });
                }
            }
            index
        }
        // M1: an instruction appended without an entry, and one removed from the middle
        pub fn emit_raw(&mut self, op: u8) {
            self.code.push(op);
        }
        pub fn peephole(&mut self, at: usize) {
            self.code.remove(at);
        }
    }
    pub struct Chunk { pub source_map: Vec<SourceMapEntry>, pub name: Option<String>, pub file: Option<String> }
    impl Chunk {
        // M2: Err(i) -> i
        pub fn get_source_location(&self, offset: usize) -> Option<Span> {
            match self.source_map.binary_search_by_key(&offset, |e| e.bytecode_offset) {
                Ok(i) => self.source_map.get(i).map(|e| e.span),
                Err(i) => self.source_map.get(i).map(|e| e.span),
            }
        }
    }
    pub struct StackFrame { pub function_name: Option<String>, pub file: Option<String>, pub line: u32, pub column: u32 }
    pub struct Frame { pub ip: usize, pub chunk: Chunk }
    pub struct Vm { pub ip: usize, pub chunk: Chunk, pub trampoline_stack: Vec<Frame> }
    impl Vm {
        // T1: outer frames bottom-up, raw ip, swapped line/column in the outer frames
        pub fn build_stack_trace(&self) -> Vec<StackFrame> {
            let mut frames = Vec::new();
            let ip = if self.ip > 0 { self.ip - 1 } else { 0 };
            if let Some(span) = self.chunk.get_source_location(ip) {
                frames.push(StackFrame { function_name: self.chunk.name.clone(), file: self.chunk.file.clone(), line: span.line, column: span.column });
            }
            for fr in self.trampoline_stack.iter() {
                if let Some(span) = fr.chunk.get_source_location(fr.ip) {
                    frames.push(StackFrame { function_name: fr.chunk.name.clone(), file: fr.chunk.file.clone(), line: span.column, column: span.line });
                }
            }
            frames
        }
    }
}

// C04 positive controls: lowerings of parameter properties, enums and namespaces that are wrong in every way rules/c04.py looks for
pub mod c04 {
    pub enum Op {
        LoadThis { dst: u8 },
        SetPropertyConst { obj: u8, key: u16, value: u8 },
        SetProperty { obj: u8, key: u8, value: u8 },
        CreateObject { dst: u8 },
        DeclareVar { name: u16, init: u8 },
        TryGetVar { dst: u8, name: u16 },
        ExportBinding { name: u16, value: u8 },
        LoadNumber { dst: u8, value: f64 },
    }
    pub enum Accessibility { Public, Private, Protected }
    pub enum Pattern { Identifier(String), Assignment(String, Box<Expression>), Rest(String) }
    pub struct FunctionParam { pub pattern: Pattern, pub accessibility: Option<Accessibility>, pub readonly: bool }
    pub struct ClassProperty { pub name: String }
    pub enum LiteralValue { Number(f64), String(String) }
    pub enum Expression { Literal(LiteralValue), Template(String), Unary(Box<Expression>), Binary(Box<Expression>, Box<Expression>), Identifier(String) }
    pub struct EnumMember { pub name: String, pub initializer: Option<Expression> }
    pub struct EnumDeclaration { pub name: String, pub members: Vec<EnumMember> }
    pub struct NamespaceDeclaration { pub name: String, pub body: Vec<Statement> }
    pub enum Statement {
        VariableDeclaration(String),
        FunctionDeclaration(String),
        ClassDeclaration(String),
        EnumDeclaration(EnumDeclaration),
        NamespaceDeclaration(NamespaceDeclaration),
        Other,
    }
    pub struct Compiler { pub code: Vec<Op> }
    impl Compiler {
        fn emit(&mut self, op: Op) { self.code.push(op); }
        fn compile_expression(&mut self, _e: &Expression, dst: u8) { self.emit(Op::LoadNumber { dst, value: 0.0 }); }
        // PP2: the this-store is emitted inside the parameter loop (through a helper)
        fn emit_parameter_property(&mut self, key: u16, value: u8) {
            self.emit(Op::LoadThis { dst: 9 });
            self.emit(Op::SetPropertyConst { obj: 9, key, value });
        }
        fn compile_instance_field_initializer(&mut self, _p: &ClassProperty) {
            self.emit(Op::LoadThis { dst: 9 });
            self.emit(Op::SetPropertyConst { obj: 9, key: 0, value: 1 });
        }
        pub fn compile_constructor_body(&mut self, params: &[FunctionParam], fields: &[&ClassProperty]) {
            // PP3: fields first
            for fld in fields {
                self.compile_instance_field_initializer(fld);
            }
            for (i, p) in params.iter().enumerate() {
                match &p.pattern {
                    Pattern::Identifier(_) => {
                        // PP1: readonly forgotten
                        if p.accessibility.is_some() {
                            self.emit_parameter_property(i as u16, i as u8);
                        }
                    }
                    Pattern::Assignment(_, d) => {
                        // PP1: defaulted parameters are never parameter properties
                        self.compile_expression(d, i as u8);
                    }
                    Pattern::Rest(_) => {}
                }
            }
        }
        // E7: folds a shift in 64 bits
        fn static_value(e: &Expression) -> Option<f64> {
            match e {
                Expression::Literal(LiteralValue::Number(n)) => Some(*n),
                Expression::Binary(l, r) => match (Self::static_value(l), Self::static_value(r)) {
                    (Some(a), Some(b)) => Some(((a as i64) << (b as u32 & 0x1f)) as f64),
                    _ => None,
                },
                _ => None,
            }
        }
        pub fn compile_enum_declaration(&mut self, decl: &EnumDeclaration) {
            if let Some(m) = decl.members.first() { if let Some(i) = &m.initializer { let _ = Self::static_value(i); } }
            // E5: no lookup of an existing binding
            self.emit(Op::CreateObject { dst: 0 });
            let mut current_value: i64 = 0;
            for (i, member) in decl.members.iter().enumerate() {
                if let Some(init) = &member.initializer {
                    self.compile_expression(init, 1);
                    if let Expression::Literal(LiteralValue::Number(n)) = init {
                        current_value = *n as i64 + 1;
                    }
                } else {
                    self.emit(Op::LoadNumber { dst: 1, value: current_value as f64 });
                    current_value += 1;
                }
                // E1: members with an odd index get no forward mapping
                if i % 2 == 0 {
                    self.emit(Op::SetPropertyConst { obj: 0, key: i as u16, value: 1 });
                }
                // E2 / E6: numeric means "number literal or unary"; the counter only follows literals
                let is_numeric = match &member.initializer {
                    None => true,
                    Some(init) => matches!(init, Expression::Literal(LiteralValue::Number(_))) || matches!(init, Expression::Unary(_)),
                };
                if is_numeric {
                    self.emit(Op::SetProperty { obj: 0, key: 1, value: 2 });
                }
            }
            // E3: the binding is declared after the members
            self.emit(Op::DeclareVar { name: 0, init: 0 });
        }
        pub fn compile_namespace_declaration(&mut self, decl: &NamespaceDeclaration) {
            self.emit(Op::TryGetVar { dst: 1, name: 0 });
            self.emit(Op::CreateObject { dst: 0 });
            for s in &decl.body {
                self.add_export_to_namespace(0, s);
            }
        }
        // N1: enums and nested namespaces are not published
        fn add_export_to_namespace(&mut self, ns: u8, s: &Statement) {
            match s {
                Statement::VariableDeclaration(_) => self.emit(Op::SetPropertyConst { obj: ns, key: 1, value: 1 }),
                Statement::FunctionDeclaration(_) => self.emit(Op::SetPropertyConst { obj: ns, key: 2, value: 1 }),
                Statement::ClassDeclaration(_) => self.emit(Op::SetPropertyConst { obj: ns, key: 3, value: 1 }),
                _ => {}
            }
        }
        pub fn compile_export_declaration(&mut self, s: &Statement) {
            match s {
                Statement::VariableDeclaration(_) => self.emit(Op::ExportBinding { name: 1, value: 1 }),
                Statement::FunctionDeclaration(_) => self.emit(Op::ExportBinding { name: 2, value: 1 }),
                Statement::ClassDeclaration(_) => self.emit(Op::ExportBinding { name: 3, value: 1 }),
                Statement::EnumDeclaration(_) => self.emit(Op::ExportBinding { name: 4, value: 1 }),
                Statement::NamespaceDeclaration(_) => self.emit(Op::ExportBinding { name: 5, value: 1 }),
                Statement::Other => {}
            }
        }
    }
}

// C07 R6 controls: a slot index taken from another collection than the one that sized the slots
pub mod c07 {
    use std::cell::RefCell;
    use std::rc::Rc;
    pub struct SharedState { pub results: RefCell<Vec<u64>>, pub remaining: usize }
    pub enum Handler { AllFulfill { state: Rc<SharedState>, index: usize }, Other }
    /// BAD: index = position among the pending inputs
    pub fn all_bad(inputs: &[Option<u64>]) -> Vec<Handler> {
        let mut results: Vec<u64> = vec![0; inputs.len()];
        let mut pending: Vec<usize> = Vec::new();
        for (i, v) in inputs.iter().enumerate() {
            match v {
                Some(x) => {
                    if let Some(slot) = results.get_mut(i) {
                        *slot = *x;
                    }
                }
                None => pending.push(i),
            }
        }
        let state = Rc::new(SharedState { results: RefCell::new(results), remaining: pending.len() });
        let mut out = Vec::new();
        for (index, _p) in pending.iter().enumerate() {
            out.push(Handler::AllFulfill { state: state.clone(), index });
        }
        out
    }
    /// GOOD: index = position among the inputs, carried through the vector of pending indices
    pub fn all_good(inputs: &[Option<u64>]) -> Vec<Handler> {
        let results: Vec<u64> = vec![0; inputs.len()];
        let mut pending: Vec<usize> = Vec::new();
        for (i, v) in inputs.iter().enumerate() {
            if v.is_none() {
                pending.push(i);
            }
        }
        let state = Rc::new(SharedState { results: RefCell::new(results), remaining: pending.len() });
        let mut out = Vec::new();
        for &idx in &pending {
            out.push(Handler::AllFulfill { state: state.clone(), index: idx });
        }
        out
    }
}

// C05/C06 index-panic controls
pub mod idx {
    /// BAD: panics for i >= len
    pub fn unguarded(v: &[u32], i: usize) -> u32 { v[i] }
    /// BAD: panics for an empty string / a cut inside a character
    pub fn unguarded_slice(s: &str) -> &str { &s[1..] }
    /// BAD: HashMap index panics for a missing key
    pub fn unguarded_map(m: &std::collections::HashMap<String, u32>, k: &str) -> u32 { m[k] }
    /// GOOD: compared with the length first
    pub fn guarded(v: &[u32], i: usize) -> u32 { if i < v.len() { v[i] } else { 0 } }
    /// GOOD: not empty, index 0
    pub fn guarded_first(v: &Vec<u32>) -> u32 { if v.is_empty() { return 0; } v[0] }
    /// BAD: byte 48 may be inside a character
    pub fn cut_at_constant(s: &mut String) { if s.len() > 48 { s.truncate(48); } }
    /// BAD: a character count is not a byte position
    pub fn cut_at_char_count(s: &mut String, want: usize) { let n = want - s.chars().count(); s.truncate(n); }
    /// GOOD: a byte length of a text
    pub fn cut_at_own_length(s: &mut String, t: &str) { let n = t.len(); s.truncate(n); }
    /// GOOD: a byte offset found in the text
    pub fn cut_at_found(s: &mut String) { if let Some(i) = s.find(':') { s.truncate(i); } }
    /// GOOD: position 0
    pub fn prepend(s: &mut String, c: char) { s.insert(0, c); }
}

// C16 R4 controls: a member left out because of what it converts to
pub mod c16omit {
    use super::value::JsValue;
    #[derive(PartialEq)]
    pub enum Json { Null, Number(f64) }
    pub struct Map(pub Vec<(String, Json)>);
    impl Map { pub fn insert(&mut self, k: String, v: Json) { self.0.push((k, v)); } }
    fn convert(v: &JsValue) -> Json {
        match v { JsValue::Number(n) if n.is_finite() => Json::Number(*n), _ => Json::Null }
    }
    /// BAD: decided by the converted value
    pub fn bad_export(members: &[(String, JsValue)]) -> Map {
        let mut map = Map(Vec::new());
        for (k, val) in members {
            let json_val = convert(val);
            if json_val == Json::Null && !matches!(val, JsValue::Object(_)) {
                continue;
            }
            map.insert(k.clone(), json_val);
        }
        map
    }
    /// GOOD: only undefined members are left out
    pub fn good_export(members: &[(String, JsValue)]) -> Map {
        let mut map = Map(Vec::new());
        for (k, val) in members {
            let json_val = convert(val);
            if json_val != Json::Null || !matches!(val, JsValue::Undefined) {
                map.insert(k.clone(), json_val);
            }
        }
        map
    }
}

// C01 R9-R12 controls: a miniature compiler / VM
pub mod c01b {
    #[derive(Clone, PartialEq)]
    pub struct JsValue(pub f64);
    pub enum Op { StrictEq { dst: u8, l: u8, r: u8 }, GetVar { dst: u8, name: u16 }, DeclareVar { name: u16, init: u8 }, Nop }
    pub struct Placeholder(pub usize);
    pub struct Builder { pub code: Vec<Op> }
    impl Builder {
        pub fn emit(&mut self, op: Op) -> usize { self.code.push(op); self.code.len() - 1 }
        pub fn emit_jump(&mut self) -> Placeholder { Placeholder(self.emit(Op::Nop)) }
        pub fn emit_jump_if_true(&mut self, _r: u8) -> Placeholder { Placeholder(self.emit(Op::Nop)) }
        pub fn emit_jump_to(&mut self, _t: usize) { self.emit(Op::Nop); }
        pub fn patch_jump(&mut self, _p: Placeholder) {}
        pub fn free_register(&mut self, _r: u8) {}
    }
    impl Compiler {
        /// BAD (R27): released in allocation order
        pub fn bad_release(&mut self, regs: Vec<(u16, u8)>) { for (_, r) in regs { self.builder.free_register(r); } }
        /// GOOD (R27)
        pub fn good_release(&mut self, regs: Vec<(u16, u8)>) { for (_, r) in regs.into_iter().rev() { self.builder.free_register(r); } }
        /// GOOD (R27): popped
        pub fn good_release_pop(&mut self, mut regs: Vec<u8>) { while let Some(r) = regs.pop() { self.builder.free_register(r); } }
    }
    pub struct Compiler { pub builder: Builder, pub redirects: Vec<(u16, u8)>, pub cont: usize }
    impl Compiler {
        fn set_continue_target(&mut self, t: usize) { self.cont = t; }
        /// BAD (R10): `continue` lands after the refresh
        pub fn bad_for_continue(&mut self, regs: &[(u16, u8)], body: &u32, update: Option<&u32>) {
            let start = self.builder.code.len();
            self.compile_statement_impl(body);
            for (n, r) in regs { self.builder.emit(Op::GetVar { dst: *r, name: *n }); }
            let c = self.builder.code.len();
            self.set_continue_target(c);
            for (n, r) in regs { self.builder.emit(Op::DeclareVar { name: *n, init: *r }); }
            if let Some(u) = update { self.compile_expression(u); }
            self.builder.emit_jump_to(start);
        }
        /// GOOD (R10): `continue` lands on the refresh; the copy of the initial values precedes the body; the update runs in the fresh scope
        pub fn good_for_continue(&mut self, regs: &[(u16, u8)], body: &u32, update: Option<&u32>) {
            for (n, r) in regs { self.builder.emit(Op::GetVar { dst: *r, name: *n }); }
            for (n, r) in regs { self.builder.emit(Op::DeclareVar { name: *n, init: *r }); }
            let start = self.builder.code.len();
            self.compile_statement_impl(body);
            let c = self.builder.code.len();
            self.set_continue_target(c);
            for (n, r) in regs { self.builder.emit(Op::GetVar { dst: *r, name: *n }); }
            for (n, r) in regs { self.builder.emit(Op::DeclareVar { name: *n, init: *r }); }
            if let Some(u) = update { self.compile_expression(u); }
            self.builder.emit_jump_to(start);
        }
        /// BAD (R10): the update is compiled in the old scope, before the variables are declared afresh
        pub fn bad_for_update_first(&mut self, regs: &[(u16, u8)], body: &u32, update: Option<&u32>) {
            for (n, r) in regs { self.builder.emit(Op::DeclareVar { name: *n, init: *r }); }
            let start = self.builder.code.len();
            self.compile_statement_impl(body);
            for (n, r) in regs { self.builder.emit(Op::GetVar { dst: *r, name: *n }); }
            if let Some(u) = update { self.compile_expression(u); }
            for (n, r) in regs { self.builder.emit(Op::DeclareVar { name: *n, init: *r }); }
            self.builder.emit_jump_to(start);
        }
        fn compile_statement_impl(&mut self, _s: &u32) {}
        fn compile_expression(&mut self, _s: &u32) {}
        fn set_loop_var_redirects(&mut self, v: Vec<(u16, u8)>) { self.redirects = v; }
        /// BAD (R9): the default jump is emitted in place
        pub fn bad_switch(&mut self, cases: &[Option<u8>]) -> Vec<Placeholder> {
            let mut out = Vec::new();
            for c in cases {
                if let Some(t) = c {
                    self.builder.emit(Op::StrictEq { dst: 0, l: 1, r: *t });
                    out.push(self.builder.emit_jump_if_true(0));
                } else {
                    out.push(self.builder.emit_jump());
                }
            }
            out
        }
        /// GOOD (R9): remembered, emitted after the tests
        pub fn good_switch(&mut self, cases: &[Option<u8>]) -> Vec<Placeholder> {
            let mut out = Vec::new();
            let mut has_default = false;
            for c in cases {
                if let Some(t) = c {
                    self.builder.emit(Op::StrictEq { dst: 0, l: 1, r: *t });
                    out.push(self.builder.emit_jump_if_true(0));
                } else {
                    has_default = true;
                }
            }
            if has_default { out.push(self.builder.emit_jump()); }
            out
        }
        /// GOOD (R9): an unconditional jump the loop patches itself (skips over something inside one test)
        pub fn good_switch_patched(&mut self, cases: &[Option<u8>]) -> Vec<Placeholder> {
            let mut out = Vec::new();
            for c in cases {
                if let Some(t) = c {
                    let skip = self.builder.emit_jump();
                    self.builder.emit(Op::StrictEq { dst: 0, l: 1, r: *t });
                    self.builder.patch_jump(skip);
                    out.push(self.builder.emit_jump_if_true(0));
                }
            }
            out
        }
        /// BAD (R10): registers refreshed only when there is no update
        pub fn bad_for(&mut self, regs: &[(u16, u8)], body: &u32, update: Option<&u32>) {
            let start = self.builder.code.len();
            self.compile_statement_impl(body);
            if let Some(u) = update {
                self.set_loop_var_redirects(regs.to_vec());
                self.compile_expression(u);
            } else {
                for (n, r) in regs { self.builder.emit(Op::GetVar { dst: *r, name: *n }); }
            }
            self.builder.emit_jump_to(start);
        }
        /// GOOD (R10)
        pub fn good_for(&mut self, regs: &[(u16, u8)], body: &u32, update: Option<&u32>) {
            let start = self.builder.code.len();
            self.compile_statement_impl(body);
            for (n, r) in regs { self.builder.emit(Op::GetVar { dst: *r, name: *n }); }
            for (n, r) in regs { self.builder.emit(Op::DeclareVar { name: *n, init: *r }); }
            if let Some(u) = update { self.compile_expression(u); }
            self.builder.emit_jump_to(start);
        }
    }
    pub struct Vm { pub regs: Vec<JsValue> }
    impl Vm {
        pub fn get_reg(&self, r: u8) -> JsValue { self.regs.get(r as usize).cloned().unwrap_or(JsValue(0.0)) }
        pub fn set_reg(&mut self, r: u8, v: JsValue) { if let Some(s) = self.regs.get_mut(r as usize) { *s = v; } }
        /// BAD (R11): the iterator is guessed to live three registers below the destination
        pub fn bad_rest(&mut self, dst: u8) { let it = self.get_reg(dst.saturating_sub(3)); self.set_reg(dst, it); }
        /// GOOD (R11): operand plus offset
        pub fn good_window(&mut self, dst: u8, start: u8, count: u8) {
            let mut acc = 0.0;
            for i in 0..count { acc += self.get_reg(start + i).0; }
            self.set_reg(dst, JsValue(acc));
        }
    }
    /// BAD (R12)
    pub fn bad_sort(v: &mut Vec<JsValue>) { v.sort_unstable_by(|a, b| a.0.total_cmp(&b.0)); }
    /// GOOD (R12)
    pub fn good_sort(v: &mut Vec<JsValue>) { v.sort_by(|a, b| a.0.total_cmp(&b.0)); }
    /// GOOD (R12): integers have no identity
    pub fn index_sort(v: &mut Vec<u32>) { v.sort_unstable(); }
}

// C01 R13 / R14 controls: byte and character quantities in string natives
pub mod c01units {
    pub enum JsValue { Number(f64), Undefined }
    impl JsValue { pub fn to_number(&self) -> f64 { match self { JsValue::Number(n) => *n, _ => f64::NAN } } }
    pub fn byte_offset(s: &str, pos: usize) -> usize { s.char_indices().nth(pos).map(|(b, _)| b).unwrap_or(s.len()) }
    pub fn char_position(s: &str, byte: usize) -> usize { s.get(..byte).map(|h| h.chars().count()).unwrap_or(0) }
    /// BAD: the script's position is used as a byte offset, and compared with a byte length
    pub fn bad_index_of(s: &str, search: &str, args: &[JsValue]) -> JsValue {
        let from = args.first().map(|v| v.to_number() as usize).unwrap_or(0);
        if from >= s.len() { return JsValue::Number(-1.0); }
        match s.get(from..).and_then(|t| t.find(search)) {
            Some(p) => JsValue::Number(char_position(s, byte_offset(s, from) + p) as f64),
            None => JsValue::Number(-1.0),
        }
    }
    /// GOOD
    pub fn good_index_of(s: &str, search: &str, args: &[JsValue]) -> JsValue {
        let from = args.first().map(|v| v.to_number() as usize).unwrap_or(0);
        if from >= s.chars().count() { return JsValue::Number(-1.0); }
        let start = byte_offset(s, from);
        match s.get(start..).and_then(|t| t.find(search)) {
            Some(p) => JsValue::Number(char_position(s, start + p) as f64),
            None => JsValue::Number(-1.0),
        }
    }
    /// BAD: a byte offset becomes a script number
    pub fn bad_search(s: &str, search: &str) -> JsValue {
        match s.find(search) { Some(p) => JsValue::Number(p as f64), None => JsValue::Number(-1.0) }
    }
    /// BAD: byte length plus script index, then used as a character position
    pub fn bad_at(s: &str, args: &[JsValue]) -> Option<char> {
        let len = s.len() as isize;
        let i = args.first().map(|v| v.to_number() as isize).unwrap_or(0);
        let at = if i < 0 { len + i } else { i };
        s.chars().nth(at as usize)
    }
    /// GOOD
    pub fn good_at(s: &str, args: &[JsValue]) -> Option<char> {
        let len = s.chars().count() as isize;
        let i = args.first().map(|v| v.to_number() as isize).unwrap_or(0);
        let at = if i < 0 { len + i } else { i };
        s.chars().nth(at as usize)
    }
    /// BAD: the converter that expects bytes is handed the script's position
    pub fn bad_swapped_converter(s: &str, args: &[JsValue]) -> usize {
        let from = args.first().map(|v| v.to_number() as usize).unwrap_or(0);
        char_position(s, from)
    }
    pub struct Re;
    impl Re { pub fn is_match(&self, _s: &str) -> bool { true } }
    pub struct Obj { pub props: Vec<(String, f64)> }
    impl Obj {
        pub fn get(&self, k: &str) -> f64 { self.props.iter().find(|p| p.0 == k).map(|p| p.1).unwrap_or(0.0) }
        pub fn set(&mut self, k: &str, v: f64) { self.props.push((k.to_string(), v)); }
    }
    /// BAD (R14): runs the matcher, never looks at lastIndex
    pub fn bad_test(re: &Re, _o: &mut Obj, s: &str) -> bool { re.is_match(s) }
    /// GOOD (R14)
    pub fn good_exec(re: &Re, o: &mut Obj, s: &str) -> bool {
        let from = o.get("lastIndex") as usize;
        let m = re.is_match(s.get(byte_offset(s, from)..).unwrap_or(""));
        o.set("lastIndex", if m { (from + 1) as f64 } else { 0.0 });
        m
    }
}

// C03 R5 controls: modifier words consumed with and without a look-ahead
pub mod modlook {
    #[derive(Clone, PartialEq)]
    pub enum TokenKind { Static, Readonly, Public, Star, LParen, Identifier(String), Eof }
    #[derive(Clone)]
    pub struct Token { pub kind: TokenKind }
    pub struct Lexer { pub toks: Vec<Token>, pub pos: usize }
    impl Lexer {
        pub fn checkpoint(&self) -> usize { self.pos }
        pub fn restore(&mut self, p: usize) { self.pos = p; }
        pub fn next_token(&mut self) -> Token { let t = self.toks.get(self.pos).cloned().unwrap_or(Token { kind: TokenKind::Eof }); self.pos += 1; t }
    }
    pub struct Parser { pub lexer: Lexer, pub current: Token }
    impl Parser {
        fn check(&self, k: &TokenKind) -> bool { std::mem::discriminant(&self.current.kind) == std::mem::discriminant(k) }
        fn advance(&mut self) { self.current = self.lexer.next_token(); }
        fn match_token(&mut self, k: &TokenKind) -> bool { if self.check(k) { self.advance(); true } else { false } }
        fn peek_is_name(&mut self) -> bool {
            let c = self.lexer.checkpoint();
            let n = self.lexer.next_token();
            self.lexer.restore(c);
            !matches!(n.kind, TokenKind::LParen | TokenKind::Eof)
        }
        fn match_modifier(&mut self, k: &TokenKind) -> bool { if self.check(k) && self.peek_is_name() { self.advance(); true } else { false } }
        fn parse_property_name(&mut self) -> Option<String> {
            let n = match &self.current.kind { TokenKind::Identifier(s) => Some(s.clone()), TokenKind::Static => Some("static".to_string()), _ => None };
            self.advance();
            n
        }
        /// BAD: `static` consumed whenever it is the current token
        pub fn bad_member(&mut self) -> (bool, Option<String>) {
            let st = self.match_token(&TokenKind::Static);
            let _gen = self.match_token(&TokenKind::Star);
            (st, self.parse_property_name())
        }
        /// BAD: the same through a match on the current kind
        pub fn bad_access(&mut self) -> bool {
            match &self.current.kind { TokenKind::Public | TokenKind::Readonly => { self.advance(); true } _ => false }
        }
        /// GOOD: wrapper with a look-ahead
        pub fn good_member(&mut self) -> (bool, Option<String>) {
            let st = self.match_modifier(&TokenKind::Static);
            (st, self.parse_property_name())
        }
        /// GOOD: inline look-ahead
        pub fn good_access(&mut self) -> bool {
            match &self.current.kind { TokenKind::Public | TokenKind::Readonly => {} _ => return false }
            if !self.peek_is_name() { return false; }
            self.advance();
            true
        }
        /// GOOD: not followed by a name (`static` before a required token)
        pub fn not_a_name_position(&mut self) -> bool {
            let st = self.match_token(&TokenKind::Static);
            st && self.require_paren()
        }
        fn require_paren(&mut self) -> bool { self.match_token(&TokenKind::LParen) }
    }
}

/// C17 R7 controls: a callee that is given a handle may return that very handle.
pub mod c17free {
    pub struct H(pub u64);
    pub type Cb = unsafe extern "C" fn(*mut H) -> *mut H;

    pub fn bad_trampoline(cb: Cb, v: u64) -> u64 {
        let h = Box::into_raw(Box::new(H(v)));
        let r = unsafe { cb(h) };
        unsafe { drop(Box::from_raw(h)) };
        if r.is_null() {
            return 0;
        }
        let b = unsafe { Box::from_raw(r) };
        b.0
    }

    pub fn good_trampoline(cb: Cb, v: u64) -> u64 {
        let h = Box::into_raw(Box::new(H(v)));
        let r = unsafe { cb(h) };
        if h != r {
            unsafe { drop(Box::from_raw(h)) };
        }
        if r.is_null() {
            return 0;
        }
        let b = unsafe { Box::from_raw(r) };
        b.0
    }

    pub fn good_trampoline_eq(cb: Cb, v: u64) -> u64 {
        let h = Box::into_raw(Box::new(H(v)));
        let r = unsafe { cb(h) };
        if r == h {
            // the callee handed the argument back: it is freed below, once
        } else {
            unsafe { drop(Box::from_raw(h)) };
        }
        if r.is_null() {
            return 0;
        }
        let b = unsafe { Box::from_raw(r) };
        b.0
    }
}

/// C04 E9 controls: classifying a value by comparing it with itself
pub mod c04e9 {
    pub enum Op { StrictEq { dst: u8, left: u8, right: u8 }, Plus { dst: u8, src: u8 }, Typeof { dst: u8, src: u8 }, LoadString { dst: u8, idx: u16 } }
    pub struct B { pub code: Vec<Op>, pub next: u8 }
    impl B {
        pub fn emit(&mut self, op: Op) { self.code.push(op); }
        pub fn alloc(&mut self) -> u8 { self.next += 1; self.next }
    }
    /// BAD: `+v === v`
    pub fn bad_number_test(b: &mut B, value_reg: u8) -> u8 {
        let n = b.alloc();
        b.emit(Op::Plus { dst: n, src: value_reg });
        b.emit(Op::StrictEq { dst: n, left: n, right: value_reg });
        n
    }
    /// BAD: `v === v`
    pub fn bad_self_test(b: &mut B, value_reg: u8) -> u8 {
        let n = b.alloc();
        let v = value_reg;
        b.emit(Op::StrictEq { dst: n, left: v, right: value_reg });
        n
    }
    /// GOOD: `typeof v === "number"`
    pub fn good_number_test(b: &mut B, value_reg: u8) -> u8 {
        let t = b.alloc();
        let s = b.alloc();
        b.emit(Op::Typeof { dst: t, src: value_reg });
        b.emit(Op::LoadString { dst: s, idx: 0 });
        b.emit(Op::StrictEq { dst: t, left: t, right: s });
        t
    }
}

/// C16 R5 controls: doubles written to a document as integers
pub mod c16cast {
    pub struct Number(pub i128);
    impl Number {
        pub fn from_i64(n: i64) -> Number { Number(n as i128) }
        pub fn from_u64(n: u64) -> Number { Number(n as i128) }
    }
    /// BAD: i64::MAX as f64 is 2^63, which the cast turns into i64::MAX
    pub fn bad_inclusive_bound(n: &f64) -> Option<Number> {
        if *n >= i64::MIN as f64 && *n <= i64::MAX as f64 { Some(Number::from_i64(*n as i64)) } else { None }
    }
    /// BAD: whole numbers between 2^64 and 1e21 saturate
    pub fn bad_abs_bound(n: &f64) -> Option<Number> {
        if n.abs() < 1e21 && *n >= 0.0 { Some(Number::from_u64(*n as u64)) } else { None }
    }
    /// GOOD
    pub fn good_strict_bound(n: &f64) -> Option<Number> {
        if *n >= i64::MIN as f64 && *n < i64::MAX as f64 { Some(Number::from_i64(*n as i64)) } else { None }
    }
}

/// C01 R21 controls: a stand-in for the insertion-ordered map (paths look like the real crate's)
pub mod indexmap {
    pub struct IndexMap<K, V> { pub e: Vec<(K, V)> }
    impl<K: PartialEq, V> IndexMap<K, V> {
        pub fn swap_remove(&mut self, k: &K) -> Option<V> {
            let i = self.e.iter().position(|x| &x.0 == k)?;
            Some(self.e.swap_remove(i).1)
        }
        pub fn shift_remove(&mut self, k: &K) -> Option<V> {
            let i = self.e.iter().position(|x| &x.0 == k)?;
            Some(self.e.remove(i).1)
        }
    }
}
pub mod c01order {
    use super::indexmap::IndexMap;
    pub fn bad_delete(m: &mut IndexMap<u32, u32>, k: u32) -> bool { m.swap_remove(&k).is_some() }
    pub fn good_delete(m: &mut IndexMap<u32, u32>, k: u32) -> bool { m.shift_remove(&k).is_some() }
}

/// C03 R7 controls: a token-set pre-filter in front of a dispatcher
pub mod prefilter {
    #[derive(Clone, PartialEq)]
    pub enum TokenKind { A, B, C, D, E, F, G, H, I, J, K, L, Eof }
    pub struct Parser { pub cur: TokenKind, pub next: TokenKind }
    impl Parser {
        /// the dispatcher: eleven kinds begin the construct
        pub fn parse_thing(&mut self) -> Option<u32> {
            match self.cur {
                TokenKind::A => Some(1), TokenKind::B => Some(2), TokenKind::C => Some(3), TokenKind::D => Some(4), TokenKind::E => Some(5),
                TokenKind::F => Some(6), TokenKind::G => Some(7), TokenKind::H => Some(8), TokenKind::I => Some(9), TokenKind::J => Some(10),
                TokenKind::K => Some(11),
                _ => None,
            }
        }
        /// BAD: a transcription of the dispatcher's arms that lost `K`
        fn starts_thing_bad(&self) -> bool {
            matches!(self.cur, TokenKind::A | TokenKind::B | TokenKind::C | TokenKind::D | TokenKind::E | TokenKind::F | TokenKind::G | TokenKind::H | TokenKind::I | TokenKind::J)
        }
        /// GOOD: all of them (and one more)
        fn starts_thing_good(&self) -> bool {
            matches!(self.cur, TokenKind::A | TokenKind::B | TokenKind::C | TokenKind::D | TokenKind::E | TokenKind::F | TokenKind::G | TokenKind::H | TokenKind::I | TokenKind::J
                | TokenKind::K | TokenKind::L)
        }
        pub fn bad_gate(&mut self) -> Option<u32> { if self.starts_thing_bad() { self.parse_thing() } else { None } }
        pub fn good_gate(&mut self) -> Option<u32> { if self.starts_thing_good() { self.parse_thing() } else { None } }
    }
}

/// C20 N1 / C01 R22 controls: creators of nested compilers
pub mod nestedcomp {
    #[derive(Clone, Default)]
    pub struct Compiler { pub source_file: Option<String>, pub class_context_stack: Vec<u32>, pub depth: u32 }
    impl Compiler {
        pub fn new() -> Self { Compiler::default() }
        /// GOOD: copies both
        pub fn good_body(&self) -> Compiler {
            let mut c = Compiler::new();
            c.source_file = self.source_file.clone();
            c.class_context_stack = self.class_context_stack.clone();
            c
        }
        /// BAD: forgets the file
        pub fn bad_ctor(&self) -> u32 {
            let mut c = Compiler::new();
            c.class_context_stack = self.class_context_stack.clone();
            c.depth
        }
        /// BAD: copies nothing
        pub fn bad_arrow(&self) -> u32 {
            let c = Compiler::new();
            c.depth
        }
        /// GOOD: through the good creator
        pub fn good_via(&self) -> u32 { self.good_body().depth }
    }
}

/// C08 R9 controls: a countdown shared by the handlers a loop attaches
pub mod countdown {
    use std::cell::Cell;
    use std::rc::Rc;
    pub struct Shared { pub remaining: Cell<usize>, pub done: Cell<bool> }
    pub struct Handler { pub state: Rc<Shared>, pub index: usize }
    /// BAD: sized by all inputs, handlers only for the pending ones
    pub fn bad_all(inputs: &[Option<u32>]) -> Vec<Handler> {
        let mut pending: Vec<usize> = Vec::new();
        for (i, v) in inputs.iter().enumerate() {
            if v.is_none() { pending.push(i); }
        }
        let shared = Rc::new(Shared { remaining: Cell::new(inputs.len()), done: Cell::new(false) });
        let mut hs = Vec::new();
        for &i in &pending {
            hs.push(Handler { state: shared.clone(), index: i });
        }
        hs
    }
    /// GOOD: sized by the collection the attach loop iterates
    pub fn good_len(inputs: &[Option<u32>]) -> Vec<Handler> {
        let mut pending: Vec<usize> = Vec::new();
        for (i, v) in inputs.iter().enumerate() {
            if v.is_none() { pending.push(i); }
        }
        let shared = Rc::new(Shared { remaining: Cell::new(pending.len()), done: Cell::new(false) });
        let mut hs = Vec::new();
        for &i in &pending {
            hs.push(Handler { state: shared.clone(), index: i });
        }
        hs
    }
    /// GOOD: a counter kept next to the pushes
    pub fn good_counter(inputs: &[Option<u32>]) -> Vec<Handler> {
        let mut pending: Vec<usize> = Vec::new();
        let mut n = 0;
        for (i, v) in inputs.iter().enumerate() {
            if v.is_none() { n += 1; pending.push(i); }
        }
        let shared = Rc::new(Shared { remaining: Cell::new(n), done: Cell::new(false) });
        let mut hs = Vec::new();
        for &i in &pending {
            hs.push(Handler { state: shared.clone(), index: i });
        }
        hs
    }
}

/// C02 G7 controls: values handed to the host
pub mod c02host {
    use super::gc::Guard;
    use super::value::{JsObject, JsValue};
    pub struct RuntimeValue { pub value: JsValue, pub guard: Option<Guard<JsObject>> }
    impl RuntimeValue {
        pub fn unguarded(value: JsValue) -> Self { RuntimeValue { value, guard: None } }
        pub fn with_guard(value: JsValue, guard: Guard<JsObject>) -> Self { RuntimeValue { value, guard: Some(guard) } }
    }
    /// BAD: whatever the payload is
    pub fn bad_payload(payload: JsValue) -> RuntimeValue { RuntimeValue::unguarded(payload) }
    /// GOOD: objects get a guard of their own
    pub fn good_payload(payload: JsValue, mk: fn() -> Guard<JsObject>) -> RuntimeValue {
        if let JsValue::Object(ref o) = payload {
            let g = mk();
            g.guard(o.clone());
            RuntimeValue::with_guard(payload, g)
        } else {
            RuntimeValue::unguarded(payload)
        }
    }
}

/// C17 R8 controls: state an API keeps between calls
pub mod c17state {
    use super::c02host::RuntimeValue;
    use super::value::JsValue;
    pub struct BadBuilder { pub exports: Vec<(String, JsValue)> }
    pub struct GoodBuilder { pub exports: Vec<(String, RuntimeValue)> }
    pub struct GoodHandles { pub exports: Vec<(String, *mut RuntimeValue)> }
}

/// C03 R8 controls: a speculative parser that answers None has consumed nothing
pub mod specparse {
    #[derive(Clone, PartialEq)]
    pub enum TokenKind { Readonly, LBracket, Other }
    pub struct Lexer { pub toks: Vec<TokenKind>, pub pos: usize }
    impl Lexer {
        pub fn checkpoint(&self) -> usize { self.pos }
        pub fn restore(&mut self, p: usize) { self.pos = p; }
        pub fn next_token(&mut self) -> TokenKind { let t = self.toks.get(self.pos).cloned().unwrap_or(TokenKind::Other); self.pos += 1; t }
    }
    pub struct Parser { pub lexer: Lexer, pub current: TokenKind }
    impl Parser {
        fn advance(&mut self) { self.current = self.lexer.next_token(); }
        fn match_token(&mut self, k: &TokenKind) -> bool { if &self.current == k { self.advance(); true } else { false } }
        /// BAD: the modifier is consumed before the checkpoint, `None` is answered with it gone
        pub fn try_bad(&mut self) -> Option<u32> {
            let _m = self.match_token(&TokenKind::Readonly);
            let cp = self.lexer.checkpoint();
            let saved = self.current.clone();
            if !self.match_token(&TokenKind::LBracket) {
                self.lexer.restore(cp);
                self.current = saved;
                return None;
            }
            Some(1)
        }
        /// GOOD: checkpoint first
        pub fn try_good(&mut self) -> Option<u32> {
            let cp = self.lexer.checkpoint();
            let saved = self.current.clone();
            let _m = self.match_token(&TokenKind::Readonly);
            if !self.match_token(&TokenKind::LBracket) {
                self.lexer.restore(cp);
                self.current = saved;
                return None;
            }
            Some(1)
        }
    }
}

// C01 R26 controls: half-away rounding and extremes by `<` / `>` alone
pub mod c01math {
    pub mod prelude { pub fn round(x: f64) -> f64 { x.round() } }
    /// BAD (R26a): through the wrapper
    pub fn bad_round(args: &[f64]) -> f64 { let n = args.first().copied().unwrap_or(f64::NAN); prelude::round(n) }
    /// BAD (R26a): directly
    pub fn bad_round_direct(args: &[f64]) -> f64 { let n = args.first().copied().unwrap_or(f64::NAN); if n.is_nan() { n } else { (n * 2.0).round() / 2.0 } }
    /// GOOD (R26a)
    pub fn good_round(args: &[f64]) -> f64 {
        let n = args.first().copied().unwrap_or(f64::NAN);
        let f = n.floor();
        let r = if n - f >= 0.5 { f + 1.0 } else { f };
        if r == 0.0 && n.is_sign_negative() { -0.0 } else { r }
    }
    /// BAD (R26b)
    pub fn bad_max(v: &[f64]) -> f64 {
        let mut m = f64::NEG_INFINITY;
        for x in v { let n = *x; if n.is_nan() { return n; } if n > m { m = n; } }
        m
    }
    /// GOOD (R26b)
    pub fn good_max(v: &[f64]) -> f64 {
        let mut m = f64::NEG_INFINITY;
        for x in v { let n = *x; if n.is_nan() { return n; } if n > m || (n == 0.0 && m == 0.0 && n.is_sign_positive()) { m = n; } }
        m
    }
    /// not an extreme: a threshold count
    pub fn count_above(v: &[f64], t: f64) -> usize { let mut c = 0; for x in v { if *x > t { c += 1; } } c }
}

/// C17 R11 controls: handles kept in a collection the host filled are freed once each.
pub mod c17loopfree {
    pub struct H(pub u64);

    /// the same handle stored twice is freed twice
    pub fn bad_drain(handles: Vec<*mut H>) -> u64 {
        let mut sum = 0;
        for h in handles {
            if !h.is_null() {
                sum += unsafe { &*h }.0;
                unsafe { drop(Box::from_raw(h)) };
            }
        }
        sum
    }

    /// read first, free each distinct pointer once afterwards
    pub fn good_drain(handles: Vec<*mut H>) -> u64 {
        let mut sum = 0;
        let mut seen: Vec<*mut H> = Vec::new();
        for h in handles {
            if !h.is_null() {
                sum += unsafe { &*h }.0;
                if !seen.contains(&h) {
                    seen.push(h);
                }
            }
        }
        for h in seen {
            unsafe { drop(Box::from_raw(h)) };
        }
        sum
    }

    /// the collection is built here from fresh boxes: distinct by construction
    pub fn good_fresh(vals: &[u64]) -> u64 {
        let hs: Vec<*mut H> = vals.iter().map(|v| Box::into_raw(Box::new(H(*v)))).collect();
        let mut sum = 0;
        for h in hs {
            sum += unsafe { &*h }.0;
            unsafe { drop(Box::from_raw(h)) };
        }
        sum
    }
}
